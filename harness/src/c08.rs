// C08 / C09 / C12 (live clause): the session FSM and the frame extractor on the real crate, through the cfg hooks.
//
// case lines:
//   FSM <id> <delay_open 0|1> <hold> <addpath fams a.s,..|-> <steps>
//        steps ';'-separated:  e:<EventName>            inject an event without payload
//                              o:<hex>                  inject the OPEN as Event::BgpOpen / BgpOpenWithDelayOpenTimerRunning (by handle_msg)
//                              m:<hex>                  handle_msg on the message decoded from these octets (with the connection's config)
//                              E:<EventName>:<hex>      inject BgpOpen / BgpOpenWithDelayOpenTimerRunning with this OPEN regardless of the timer
//                              U:<n>:<hex>              handle_msg on this message n times back to back (a burst; stops at the first error)
//                              G                        set_negotiated_config(negotiated().clone()): applying what was negotiated once more
//                              A:<hex>                  a new connection: the peer writes these octets, Session::attach_stream gets the socket
//                              t:<hex> / c              the peer writes these octets / closes, the session runs one tick
//        after every step one field: state,crc,timers,conn,four,addpath | out | app | result
//   FRM <id> <chunk hex>,<chunk hex>,...       push chunks into Connection and extract frames
//   RDM <id> <hex>                             read_message on this source
//   RDS <id> <k> <hex>                         read_message until the source is exhausted; the source hands out at most k octets per read
use std::io::Write;
use std::net::{IpAddr, Ipv4Addr};
use bytes::Bytes;
use inetnum::asn::Asn;
use routecore::bgp::fsm::session::{BgpConfig, Command, Connection, Message, Session};
use routecore::bgp::fsm::state_machine::{Event, State};
use routecore::bgp::message::{Message as BgpMsg, OpenMessage, read_message};
use routecore::bgp::types::AfiSafiType;
use tokio::net::{TcpListener, TcpStream};
use tokio::sync::mpsc;
use crate::util::{guard, hex, unhex};

#[derive(Clone, Debug)]
struct Cfg { hold: Option<u16>, addpath: Vec<AfiSafiType> }
impl BgpConfig for Cfg {
    fn local_asn(&self) -> Asn { Asn::from_u32(65000) }
    fn bgp_id(&self) -> [u8; 4] { [10, 0, 0, 1] }
    fn remote_addr_allowed(&self, _a: IpAddr) -> bool { true }
    fn remote_asn_allowed(&self, asn: Asn) -> bool { asn.into_u32() % 2 == 1 }   // odd ASNs are allowed
    fn hold_time(&self) -> Option<u16> { self.hold }
    fn is_exact(&self) -> bool { true }
    fn protocols(&self) -> Vec<AfiSafiType> { vec![AfiSafiType::Ipv4Unicast] }
    fn addpath(&self) -> Vec<AfiSafiType> { self.addpath.clone() }
}

fn state_s(s: State) -> &'static str {
    match s { State::Idle => "Idle", State::Connect => "Connect", State::Active => "Active", State::OpenSent => "OpenSent",
              State::OpenConfirm => "OpenConfirm", State::Established => "Established", _ => "Unimplemented" }
}

fn event_of(name: &str, open: Option<OpenMessage<Bytes>>) -> Event {
    match name {
        "ManualStart" => Event::ManualStart, "ManualStop" => Event::ManualStop, "AutomaticStart" => Event::AutomaticStart,
        "ManualStartWithPassiveTcpEstablishment" => Event::ManualStartWithPassiveTcpEstablishment,
        "AutomaticStartWithPassiveTcpEstablishment" => Event::AutomaticStartWithPassiveTcpEstablishment,
        "ConnectRetryTimerExpires" => Event::ConnectRetryTimerExpires, "HoldTimerExpires" => Event::HoldTimerExpires,
        "KeepaliveTimerExpires" => Event::KeepaliveTimerExpires, "DelayOpenTimerExpires" => Event::DelayOpenTimerExpires,
        "TcpCrAcked" => Event::TcpCrAcked, "TcpConnectionConfirmed" => Event::TcpConnectionConfirmed, "TcpConnectionFails" => Event::TcpConnectionFails,
        "BgpOpen" => Event::BgpOpen(open.unwrap()), "BgpHeaderErr" => Event::BgpHeaderErr, "BgpOpenMsgErr" => Event::BgpOpenMsgErr,
        "NotifMsgVerErr" => Event::NotifMsgVerErr, "NotifMsg" => Event::NotifMsg, "KeepaliveMsg" => Event::KeepaliveMsg,
        "UpdateMsg" => Event::UpdateMsg, "UpdateMsgErr" => Event::UpdateMsgErr,
        "BgpOpenWithDelayOpenTimerRunning" => Event::BgpOpenWithDelayOpenTimerRunning(open.unwrap()),
        _ => panic!("event name"),
    }
}

/// The write half that belongs to the session's read half: it has to stay open for the duration of a case (dropping it would
/// shut the socket down) and is closed with the case - forgetting it leaked one descriptor per case and ran a thorough run out
/// of descriptors.
struct Pair { rd: Option<tokio::net::tcp::OwnedReadHalf>, _wr: tokio::net::tcp::OwnedWriteHalf, peer: TcpStream }

async fn pair() -> Pair {
    let l = TcpListener::bind("127.0.0.1:0").await.unwrap();
    let addr = l.local_addr().unwrap();
    let c = TcpStream::connect(addr).await.unwrap();
    let (s, _) = l.accept().await.unwrap();
    // no TIME_WAIT entries: tens of thousands of cases would exhaust the ephemeral ports
    let _ = s.set_linger(Some(std::time::Duration::ZERO));
    let _ = c.set_linger(Some(std::time::Duration::ZERO));
    let (r, w) = s.into_split();
    Pair { rd: Some(r), _wr: w, peer: c }
}

fn fam_s(t: AfiSafiType) -> String { let (a, s): (u16, u8) = t.into(); format!("{a}.{s}") }

async fn fsm_case(delay_open: bool, hold: u16, ap: &str, steps: &str) -> String {
    // one socket pair per connection of the case: the first goes into Session::new, every `A` step attaches another one
    let mut pairs = vec![pair().await];
    let rd = pairs[0].rd.take().unwrap();
    let addpath: Vec<AfiSafiType> = if ap == "-" { vec![] } else {
        ap.split(',').map(|e| { let (a, s) = e.split_once('.').unwrap(); AfiSafiType::from((a.parse::<u16>().unwrap(), s.parse::<u8>().unwrap())) }).collect() };
    let (app_tx, mut app_rx) = mpsc::channel::<Message>(64);
    let (_cmd_tx, cmd_rx) = mpsc::channel::<Command>(4);
    let (out_tx, mut out_rx) = mpsc::channel::<BgpMsg<Bytes>>(64);
    let mut s = Session::new(Cfg { hold: Some(hold), addpath: addpath.clone() }, rd, app_tx, cmd_rx, out_tx);
    if delay_open { s.enable_delay_open(); }
    let mut fields = vec![];
    let mut upd_id = 0u32;
    for st in steps.split(';').filter(|x| !x.is_empty()) {
        let parts: Vec<&str> = st.split(':').collect();
        if parts[0] == "A" { pairs.push(pair().await); }
        let np = pairs.len() - 1;
        let new_rd = if parts[0] == "A" { pairs[np].rd.take() } else { None };
        let peer = &mut pairs[np].peer;
        let fut = async {
            match parts[0] {
                "A" => {
                    // Session::attach_stream waits for the new socket to become readable: the peer has written something (its OPEN)
                    use tokio::io::AsyncWriteExt;
                    peer.write_all(&unhex(parts[1])).await.unwrap();
                    peer.flush().await.unwrap();
                    match tokio::time::timeout(std::time::Duration::from_millis(3000), s.attach_stream(new_rd.unwrap())).await {
                        Ok(()) => Ok(()),
                        Err(_) => Err(()),
                    }
                }
                "e" => s.verif_inject(event_of(parts[1], None)).await.map_err(|_| ()),
                "E" => { let o = OpenMessage::from_octets(Bytes::from(unhex(parts[2]))).unwrap(); s.verif_inject(event_of(parts[1], Some(o))).await.map_err(|_| ()) }
                "m" | "o" => {
                    let b = Bytes::from(unhex(parts[1]));
                    let sc = s.verif_connection_mut().map(|c| c.session_config_mut().clone()).unwrap_or(routecore::bgp::message::SessionConfig::modern());
                    match BgpMsg::from_octets(b, Some(&sc)) { Ok(m) => s.verif_handle_msg(m).await.map_err(|_| ()), Err(_) => Err(()) }
                }
                "G" => {
                    // the negotiated configuration applied once more (Session::set_negotiated_config is public): a no-op
                    if let Some(n) = s.negotiated().cloned() { s.set_negotiated_config(n); }
                    Ok(())
                }
                "U" => {
                    // a burst: the same message n times back to back; the application takes messages off its queue only when the
                    // session waits for it (see the select below), as a consumer slower than the session would
                    let n: usize = parts[1].parse().unwrap();
                    let b = Bytes::from(unhex(parts[2]));
                    let mut r = Ok(());
                    for _ in 0..n {
                        let sc = s.verif_connection_mut().map(|c| c.session_config_mut().clone()).unwrap_or(routecore::bgp::message::SessionConfig::modern());
                        r = match BgpMsg::from_octets(b.clone(), Some(&sc)) { Ok(m) => s.verif_handle_msg(m).await.map_err(|_| ()), Err(_) => Err(()) };
                        if r.is_err() { break; }
                    }
                    r
                }
                "t" => {
                    // black box: the peer writes these octets, the session runs one tick
                    use tokio::io::AsyncWriteExt;
                    let b = unhex(parts[1]);
                    peer.write_all(&b).await.unwrap();
                    peer.flush().await.unwrap();
                    match tokio::time::timeout(std::time::Duration::from_millis(3000), s.tick()).await {
                        Ok(r) => r.map_err(|_| ()),
                        Err(_) => Err(()),
                    }
                }
                "c" => {
                    // the peer closes the connection
                    use tokio::io::AsyncWriteExt;
                    let _ = peer.shutdown().await;
                    match tokio::time::timeout(std::time::Duration::from_millis(3000), s.tick()).await {
                        Ok(r) => r.map_err(|_| ()),
                        Err(_) => Err(()),
                    }
                }
                _ => panic!("step"),
            }
        };
        // a panic inside the session is an observation
        // the application side of the queue: while the step is waiting (a full queue towards the application), take one message
        let mut app_early: Vec<Message> = vec![];
        let r = {
            let r = futures_catch(std::panic::AssertUnwindSafe(fut));
            tokio::pin!(r);
            loop {
                tokio::select! {
                    biased;
                    x = &mut r => break x,
                    Some(m) = app_rx.recv() => app_early.push(m),
                }
            }
        };
        let res = match r { None => "PANIC", Some(Ok(())) => "ok", Some(Err(())) => "err" };
        let (state, crc, t, conn) = s.verif_snapshot();
        let cfgs = match s.verif_connection_mut() {
            None => "-".to_string(),
            Some(c) => { let sc = c.session_config_mut().clone();
                let mut fams: Vec<String> = addpath.iter().chain([AfiSafiType::Ipv4Unicast, AfiSafiType::Ipv6Unicast, AfiSafiType::Ipv4Multicast].iter())
                    .map(|f| format!("{}:{}", fam_s(*f), sc.get_addpath(*f).map(|d| u8::from(d).to_string()).unwrap_or("-".into()))).collect();
                fams.sort(); fams.dedup();
                format!("{}/{}", sc.four_octet_enabled() as u8, fams.join(",")) }
        };
        let mut out = vec![];
        while let Ok(m) = out_rx.try_recv() {
            out.push(match m { BgpMsg::Open(o) => {
                                   // what the OPEN this side sent advertises: the four-octet capability and the ADD-PATH families with directions
                                   let mut aps: Vec<String> = guard(std::panic::AssertUnwindSafe(|| o.addpath_families_vec())).map(|r| match r {
                                       Ok(v) => v.iter().map(|(f, d)| format!("{}:{}", fam_s(*f), u8::from(*d))).collect(),
                                       Err(_) => vec!["E".to_string()] }).unwrap_or(vec!["PANIC".to_string()]);
                                   aps.sort();
                                   format!("open[4={};ap={}]", o.four_octet_capable() as u8, aps.join(",")) }
                               BgpMsg::Keepalive(_) => "keepalive".to_string(),
                               BgpMsg::Notification(n) => { let r = n.details().raw(); format!("notif:{}.{}", r[0], r[1]) }
                               BgpMsg::Update(_) => "update".to_string(), BgpMsg::RouteRefresh(_) => "rr".to_string() });
        }
        let mut app = vec![];
        while let Ok(m) = app_rx.try_recv() { app_early.push(m); }
        for m in app_early {
            app.push(match m { Message::UpdateMessage(_) => { upd_id += 1; "update".to_string() } Message::NotificationMessage(_) => "notification".to_string(),
                               Message::SessionNegotiated(n) => format!("negotiated:{}", n.remote_asn().into_u32()),
                               Message::ConnectionLost(_) => "lost".to_string(), Message::Attributes(_) => "attrs".to_string() });
        }
        fields.push(format!("{},{},{}{}{}{},{},{}|{}|{}|{}", state_s(state), crc, t[0] as u8, t[1] as u8, t[2] as u8, t[3] as u8, conn as u8, cfgs,
                            out.join("+"), app.join("+"), res));
        if res == "PANIC" { break; }
    }
    let _ = upd_id;
    fields.join(" ; ")
}

// catch a panic raised while polling a future
async fn futures_catch<F: std::future::Future + std::panic::UnwindSafe>(f: F) -> Option<F::Output> {
    use std::pin::Pin;
    use std::task::{Context, Poll};
    struct Catch<F>(Pin<Box<F>>);
    impl<F: std::future::Future> std::future::Future for Catch<F> {
        type Output = Option<F::Output>;
        fn poll(mut self: Pin<&mut Self>, cx: &mut Context<'_>) -> Poll<Self::Output> {
            let inner = &mut self.0;
            match std::panic::catch_unwind(std::panic::AssertUnwindSafe(|| inner.as_mut().poll(cx))) {
                Ok(Poll::Ready(v)) => Poll::Ready(Some(v)),
                Ok(Poll::Pending) => Poll::Pending,
                Err(_) => Poll::Ready(None),
            }
        }
    }
    Catch(Box::pin(f)).await
}

async fn frm_case(chunks: &str) -> String {
    let mut pr = pair().await;
    let rd = pr.rd.take().unwrap();
    let _peer = &mut pr.peer;
    let mut c = Connection::for_read_half(rd);
    let mut out = vec![];
    'outer: for ch in chunks.split(',') {
        if ch != "-" { c.verif_push(&unhex(ch)); }
        loop {
            match guard(std::panic::AssertUnwindSafe(|| c.verif_parse_frame())) {
                None => { out.push("PANIC".to_string()); break 'outer; }
                Some(Err(_)) => { out.push("E".to_string()); break 'outer; }
                Some(Ok(None)) => break,
                Some(Ok(Some(m))) => out.push(hex(m.as_ref())),
            }
        }
    }
    format!("{} rest={}", out.join(","), c.verif_buffered())
}

/// SCK: the peer writes the chunks into the socket and closes; Connection::read_frame (cfg hook) is called until it reports the
/// close or an error.  mode a: everything is written and the socket closed before the first read (the kernel coalesces the writes);
/// mode b: after every chunk the reader takes what it can get (a read that would block is abandoned after 2 ms - read_buf is
/// cancellation safe - so whichever way the timing falls the frames and the end reported are those of the stream).
async fn sck_case(mode: &str, chunks: &str) -> String {
    use tokio::io::AsyncWriteExt;
    let mut pr = pair().await;
    let rd = pr.rd.take().unwrap();
    let Pair { _wr, peer, .. } = pr;
    let mut peer = Some(peer);
    let mut c = Connection::for_read_half(rd);
    let mut out: Vec<String> = vec![];
    let mut end: Option<&'static str> = None;
    for ch in chunks.split(',').filter(|c| *c != "-" && !c.is_empty()) {
        let p = peer.as_mut().unwrap();
        p.write_all(&unhex(ch)).await.unwrap();
        p.flush().await.unwrap();
        if mode == "b" {
            loop {
                match tokio::time::timeout(std::time::Duration::from_millis(2), futures_catch(std::panic::AssertUnwindSafe(c.verif_read_frame()))).await {
                    Err(_) => break,
                    Ok(None) => { end = Some("PANIC"); break }
                    Ok(Some(Err(_))) => { end = Some("E"); break }
                    Ok(Some(Ok(None))) => { end = Some("EOF?"); break }
                    Ok(Some(Ok(Some(m)))) => out.push(hex(m.as_ref())),
                }
            }
            if end.is_some() { break }
        }
    }
    // the close: a FIN behind the last octet (the socket itself is dropped - with linger 0, a reset - only after the reader is done)
    peer.as_mut().unwrap().shutdown().await.unwrap();
    let mut n = 0;
    while end.is_none() {
        n += 1;
        if n > 100000 { end = Some("NONTERM"); break }
        match tokio::time::timeout(std::time::Duration::from_secs(20), futures_catch(std::panic::AssertUnwindSafe(c.verif_read_frame()))).await {
            Err(_) => end = Some("HANG"),
            Ok(None) => end = Some("PANIC"),
            Ok(Some(Err(_))) => end = Some("E"),
            Ok(Some(Ok(None))) => end = Some("EOF"),
            Ok(Some(Ok(Some(m)))) => out.push(hex(m.as_ref())),
        }
    }
    drop(peer.take());
    drop(_wr);
    format!("{} end={}", out.join(","), end.unwrap())
}

pub fn run(args: &[String]) {
    let rt = tokio::runtime::Builder::new_current_thread().enable_all().build().unwrap();
    let stdout = std::io::stdout();
    let mut out = std::io::BufWriter::new(stdout.lock());
    for line in crate::util::read_lines(&args[0]) {
        let f: Vec<&str> = line.split_whitespace().collect();
        if f.is_empty() { continue; }
        let s = match f[0] {
            "FSM" => rt.block_on(fsm_case(f[2] == "1", f[3].parse().unwrap(), f[4], f.get(5).unwrap_or(&""))),
            "FRM" => rt.block_on(frm_case(f[2])),
            "SCK" => rt.block_on(sck_case(f[2], f[3])),
            "RDS" => {
                // read_message called until the source is exhausted, on a reader that hands out at most k octets per read()
                struct Chunked { data: Vec<u8>, pos: usize, k: usize }
                impl std::io::Read for Chunked {
                    fn read(&mut self, buf: &mut [u8]) -> std::io::Result<usize> {
                        let n = buf.len().min(self.k).min(self.data.len() - self.pos);
                        buf[..n].copy_from_slice(&self.data[self.pos..self.pos + n]);
                        self.pos += n;
                        Ok(n)
                    }
                }
                let k: usize = f[2].parse().unwrap();
                let src = unhex(f[3]);
                guard(move || {
                    let mut buf = [0u8; 4096];
                    let mut rd = Chunked { data: src, pos: 0, k };
                    let mut out = vec![];
                    for _ in 0..64 {
                        match read_message(&mut rd, &mut buf) {
                            Ok(None) => { out.push("none".to_string()); break }
                            Err(_) => { out.push("E".to_string()); break }
                            Ok(Some(b)) => out.push(format!("ok:{}", hex(b))),
                        }
                    }
                    out.join(",")
                }).unwrap_or("PANIC".into())
            }
            "RDM" => {
                let src = unhex(f[2]);
                guard(move || {
                    let mut buf = [0u8; 4096];
                    let mut cur = std::io::Cursor::new(src);
                    match read_message(&mut cur, &mut buf) { Ok(None) => "none".to_string(), Err(_) => "E".to_string(), Ok(Some(b)) => format!("ok:{}", hex(b)) }
                }).unwrap_or("PANIC".into())
            }
            _ => panic!("bad case line"),
        };
        writeln!(out, "{} {} {}", f[0], f[1], s).unwrap();
    }
    out.flush().unwrap();
}
