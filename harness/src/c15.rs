// C15: BMP messages on the real crate.
//
//   observe c15 obs <cases>        case: BMP <hex>
//
// One line per case: `BMP <hex> <kind|ERR|PANIC> field=value ...`.  Every accessor group runs under its own catch_unwind, so
// a panicking accessor is the observation `<group>=PANIC` and the others are still printed.
use std::io::Write;
use std::net::IpAddr;

use chrono::{DateTime, Utc};
use routecore::bgp::message::SessionConfig;
use routecore::bgp::message::UpdateMessage;
use routecore::bmp::message::{
    Message, PeerDownReason, PerPeerHeader, Stat, TerminationInformation,
};

use crate::util::{guard, hex, read_lines, unhex};

/// Collect at most CAP items: an iterator that does not terminate on a message of at most a few thousand octets is an
/// observation (`NONTERM`), not a hung check.
const CAP: usize = 100_000;
fn capped<T>(it: impl Iterator<Item = T>, f: impl Fn(&T) -> String) -> String {
    let mut v = Vec::new();
    for (i, x) in it.enumerate() {
        if i >= CAP { return "NONTERM".into(); }
        v.push(f(&x));
    }
    format!("[{}]", v.join(","))
}

fn g(name: &str, f: impl FnOnce() -> String) -> String {
    match guard(f) {
        Some(s) => format!(" {name}={s}"),
        None => format!(" {name}=PANIC"),
    }
}

fn addr(a: IpAddr) -> String {
    match a {
        IpAddr::V4(x) => format!("4:{}", hex(&x.octets())),
        IpAddr::V6(x) => format!("6:{}", hex(&x.octets())),
    }
}

fn pph<O: AsRef<[u8]>>(h: &PerPeerHeader<O>) -> String {
    let ts: DateTime<Utc> = h.timestamp();
    let tss = if ts == DateTime::<Utc>::MIN_UTC { "MIN".to_string() }
              else { format!("{}.{}", ts.timestamp(), ts.timestamp_subsec_nanos()) };
    format!("{}.{:?}/{}/{}/{}/{}/{}/{}/{}/{}{}{}{}{}",
        u8::from(h.peer_type()), h.peer_type(), h.flags(), hex(h.distinguisher()), addr(h.address()), h.asn().into_u32(), hex(&h.bgp_id()),
        tss,
        match h.rib_type() { routecore::bmp::message::RibType::AdjRibIn => 0, routecore::bmp::message::RibType::AdjRibOut => 1,
                             routecore::bmp::message::RibType::LocRib => 2 },
        h.is_ipv4() as u8, h.is_ipv6() as u8, h.is_pre_policy() as u8, h.is_post_policy() as u8, h.is_legacy_format() as u8)
}

fn upd_s<E>(r: Result<UpdateMessage<&[u8]>, E>) -> String {
    match r {
        Ok(u) => format!("OK:{}:{}:{}", u.length(), u.withdrawn_routes_len(), u.total_path_attribute_len()),
        Err(_) => "ERR".into(),
    }
}

fn stat_s(s: &Stat) -> String {
    use Stat::*;
    match s {
        Type0(v) => format!("0={v}"), Type1(v) => format!("1={v}"), Type2(v) => format!("2={v}"), Type3(v) => format!("3={v}"),
        Type4(v) => format!("4={v}"), Type5(v) => format!("5={v}"), Type6(v) => format!("6={v}"),
        Type7(v) => format!("7={v}"), Type8(v) => format!("8={v}"),
        Type9(a, s, v) => format!("9={}/{}/{}", u16::from(*a), s, v),
        Type10(a, s, v) => format!("10={}/{}/{}", u16::from(*a), s, v),
        Type11(v) => format!("11={v}"), Type12(v) => format!("12={v}"), Type13(v) => format!("13={v}"),
        Type14(v) => format!("14={v}"), Type15(v) => format!("15={v}"),
        Type16(a, s, v) => format!("16={}/{}/{}", u16::from(*a), s, v),
        Type17(a, s, v) => format!("17={}/{}/{}", u16::from(*a), s, v),
        Unimplemented(t, l) => format!("{t}?{l}"),
    }
}

fn one(bytes: &[u8]) -> String {
    let msg = match guard(|| Message::from_octets(bytes)) {
        None => return "PANIC".into(),
        Some(Err(_)) => return "ERR".into(),
        Some(Ok(m)) => m,
    };
    let mut out = String::new();
    let head = g("ch", || format!("{}/{}/{}", msg.version(), msg.length(), u8::from(msg.msg_type())));
    match &msg {
        Message::RouteMonitoring(m) => {
            out.push_str("RM");
            out.push_str(&head);
            out.push_str(&g("pph", || pph(&m.per_peer_header())));
            out.push_str(&g("upd", || {
                let cfg = SessionConfig::modern();
                match m.bgp_update(&cfg) {
                    Ok(u) => format!("OK:{}:{}:{}", u.length(), u.withdrawn_routes_len(), u.total_path_attribute_len()),
                    Err(_) => "ERR".into(),
                }
            }));
            // the embedded UPDATE on its own
            out.push_str(&g("own", || {
                let cfg = SessionConfig::modern();
                upd_s(UpdateMessage::from_octets(&bytes[48..], &cfg))
            }));
        }
        Message::StatisticsReport(m) => {
            out.push_str("SR");
            out.push_str(&head);
            out.push_str(&g("pph", || pph(&m.per_peer_header())));
            out.push_str(&g("count", || format!("{}", m.stats_count())));
            out.push_str(&g("stats", || capped(m.stats(), stat_s)));
        }
        Message::PeerDownNotification(m) => {
            out.push_str("PD");
            out.push_str(&head);
            out.push_str(&g("pph", || pph(&m.per_peer_header())));
            out.push_str(&g("reason", || match m.reason() {
                PeerDownReason::Reserved => "0", PeerDownReason::LocalNotification => "1", PeerDownReason::LocalFsm => "2",
                PeerDownReason::RemoteNotification => "3", PeerDownReason::RemoteNodata => "4",
                PeerDownReason::PeerDeconfigured => "5", PeerDownReason::Unknown => "U" }.to_string()));
            out.push_str(&g("notif", || match m.notification() {
                Some(n) => format!("{}:{:?}", hex(n.as_ref()), guard(|| u8::from(n.code())).map(|c| c as i32).unwrap_or(-1)),
                None => "-".into() }));
            out.push_str(&g("fsm", || match m.fsm() { Some(v) => format!("{v}"), None => "-".into() }));
        }
        Message::PeerUpNotification(m) => {
            out.push_str("PU");
            out.push_str(&head);
            out.push_str(&g("pph", || pph(&m.per_peer_header())));
            out.push_str(&g("local", || format!("{}/{}/{}", addr(m.local_address()), m.local_port(), m.remote_port())));
            out.push_str(&g("sent", || hex(m.bgp_open_sent().as_ref())));
            out.push_str(&g("rcvd", || hex(m.bgp_open_rcvd().as_ref())));
            out.push_str(&g("both", || { let (s, r) = m.bgp_open_sent_rcvd(); format!("{}/{}", hex(s.as_ref()), hex(r.as_ref())) }));
            out.push_str(&g("tlvs", || capped(m.information_tlvs(), |t| format!("{}/{:?}:{}", u16::from(t.typ()), t.typ(), hex(t.value())))));
            out.push_str(&g("cfg", || {
                // the two derivations of the session configuration (with / without the per-peer header) differ in where the
                // four-octet setting comes from, never in the ADD-PATH directions (what these are is C12); a station reuses the
                // result for every Route Monitoring message of the peer
                let (a, _) = m.pph_session_config();
                let b = m.session_config();
                let _ = m.supported_protocols();
                use routecore::bgp::types::AfiSafiType as F;
                let fams = [F::Ipv4Unicast, F::Ipv6Unicast, F::Ipv4Multicast, F::Ipv6Multicast, F::Ipv4MplsUnicast, F::Ipv6MplsUnicast,
                            F::Ipv4MplsVpnUnicast, F::Ipv6MplsVpnUnicast, F::Ipv4RouteTarget, F::Ipv4FlowSpec, F::Ipv6FlowSpec, F::L2VpnVpls, F::L2VpnEvpn];
                match fams.iter().find(|f| a.get_addpath(**f) != b.get_addpath(**f)) {
                    None => "ok".into(),
                    Some(f) => format!("DIFF:{:?}:{:?}/{:?}", f, a.get_addpath(*f), b.get_addpath(*f)).replace(' ', ""),
                }
            }));
        }
        Message::InitiationMessage(m) => {
            out.push_str("IN");
            out.push_str(&head);
            out.push_str(&g("tlvs", || capped(m.information_tlvs(), |t| format!("{}/{:?}:{}", u16::from(t.typ()), t.typ(), hex(t.value())))));
        }
        Message::TerminationMessage(m) => {
            out.push_str("TM");
            out.push_str(&head);
            out.push_str(&g("info", || capped(m.information(), |i| match i {
                TerminationInformation::CustomString(s) => format!("S:{}", hex(s.as_bytes())),
                TerminationInformation::AdminClose => "R:0".into(),
                TerminationInformation::Unspecified => "R:1".into(),
                TerminationInformation::OutOfResources => "R:2".into(),
                TerminationInformation::RedundantConnection => "R:3".into(),
                TerminationInformation::PermAdminClose => "R:4".into(),
                TerminationInformation::Undefined(u) => format!("R:{u}"),
            })));
        }
        Message::RouteMirroring(m) => {
            out.push_str("MI");
            out.push_str(&head);
            out.push_str(&g("pph", || pph(&m.per_peer_header())));
        }
    }
    // Display / Debug / AsRef never panic on an accepted message
    out.push_str(&g("fmt", || { let _ = format!("{} {:?}", msg, msg); format!("{}", msg.as_ref().len()) }));
    out
}

pub fn run(args: &[String]) {
    match args.first().map(|s| s.as_str()) {
        Some("obs") => {
            let out = std::io::stdout();
            let mut out = out.lock();
            for l in read_lines(&args[1]) {
                let mut it = l.split_whitespace();
                let (k, h) = match (it.next(), it.next()) { (Some(k), Some(h)) => (k, h), _ => continue };
                if k != "BMP" { continue; }
                let bytes = unhex(h);
                writeln!(out, "BMP {h} {}", one(&bytes)).unwrap();
            }
        }
        _ => { eprintln!("usage: observe c15 obs <cases>"); std::process::exit(2) }
    }
}
