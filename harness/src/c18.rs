// C18: every code point of every protocol enumeration through the real conversions.
//
//   observe c18 obs <afisafi-domain-file>   -> canonical observation lines (diffed with the model)
//   observe c18 oracle [full]               -> the property itself on the real crate, exhaustively
use std::fmt::Debug;
use std::io::Write;

use routecore::bgp::nlri::afisafi::{Afi, AfiSafiType, NlriType};
use routecore::bgp::types::AddpathDirection;
use routecore::bgp::aspath::SegmentType;
use routecore::bgp::message::notification::{NotificationMessage, Details};
use routecore::bgp::message::{Header, MsgType};

fn line_u<T, I>(out: &mut impl Write, key: &str, n: I, w: u32, viol: &mut Vec<String>, obs: bool)
where
    T: From<I> + Debug + Copy,
    I: From<T> + Copy + Debug + PartialEq + Into<u64>,
{
    let v: T = T::from(n);
    let back: I = I::from(v);
    let dbg = format!("{:?}", v);
    let nn: u64 = n.into();
    if back != n {
        viol.push(format!("enum {key}: {nn} -> {dbg} -> {:?}", back));
    }
    if obs {
        let default = format!("Unimplemented({nn})");
        if dbg != default || back != n {
            let b: u64 = back.into();
            writeln!(out, "ENUM {key} {nn} {dbg} {b}").unwrap();
        }
    }
    let _ = w;
}

macro_rules! sweep {
    ($out:expr, $viol:expr, $obs:expr, $key:expr, $ty:ty, u8) => {{
        let mut names: std::collections::HashMap<String, u64> = Default::default();
        for n in 0..=u8::MAX {
            line_u::<$ty, u8>($out, $key, n, 8, $viol, $obs);
            let d = format!("{:?}", <$ty>::from(n));
            if !d.contains('(') {
                if let Some(prev) = names.insert(d.clone(), n as u64) {
                    $viol.push(format!("enum {}: {} and {} both map to {}", $key, prev, n, d));
                }
            }
        }
        if $obs { writeln!($out, "ENUMEND {} 256", $key).unwrap(); }
    }};
    ($out:expr, $viol:expr, $obs:expr, $key:expr, $ty:ty, u16) => {{
        let mut names: std::collections::HashMap<String, u64> = Default::default();
        for n in 0..=u16::MAX {
            line_u::<$ty, u16>($out, $key, n, 16, $viol, $obs);
            let v = <$ty>::from(n);
            let back = u16::from(v);
            if back == n && n > 1024 { continue; }
            let d = format!("{:?}", v);
            if !d.contains('(') {
                if let Some(prev) = names.insert(d.clone(), n as u64) {
                    $viol.push(format!("enum {}: {} and {} both map to {}", $key, prev, n, d));
                }
            }
        }
        if $obs { writeln!($out, "ENUMEND {} 65536", $key).unwrap(); }
    }};
}

fn all_enums(out: &mut impl Write, viol: &mut Vec<String>, obs: bool) {
    use routecore::bgp::fsm::state_machine::State;
    use routecore::bgp::message::MsgType;
    use routecore::bgp::message::notification as nt;
    use routecore::bgp::message::open::{CapabilityType, OptionalParameterType};
    use routecore::bgp::nlri::evpn::EvpnRouteType;
    use routecore::bgp::types as ty;
    use routecore::bmp::message as bmp;
    use routecore::mrt;
    sweep!(out, viol, obs, "State@src/bgp/fsm/state_machine.rs", State, u16);
    sweep!(out, viol, obs, "MsgType@src/bgp/message/mod.rs", MsgType, u8);
    sweep!(out, viol, obs, "ErrorCode@src/bgp/message/notification.rs", nt::ErrorCode, u8);
    sweep!(out, viol, obs, "MessageHeaderSubcode@src/bgp/message/notification.rs", nt::MessageHeaderSubcode, u8);
    sweep!(out, viol, obs, "OpenMessageSubcode@src/bgp/message/notification.rs", nt::OpenMessageSubcode, u8);
    sweep!(out, viol, obs, "UpdateMessageSubcode@src/bgp/message/notification.rs", nt::UpdateMessageSubcode, u8);
    sweep!(out, viol, obs, "FiniteStateMachineSubcode@src/bgp/message/notification.rs", nt::FiniteStateMachineSubcode, u8);
    sweep!(out, viol, obs, "CeaseSubcode@src/bgp/message/notification.rs", nt::CeaseSubcode, u8);
    sweep!(out, viol, obs, "RouteRefreshMessageSubcode@src/bgp/message/notification.rs", nt::RouteRefreshMessageSubcode, u8);
    sweep!(out, viol, obs, "CapabilityType@src/bgp/message/open.rs", CapabilityType, u8);
    sweep!(out, viol, obs, "OptionalParameterType@src/bgp/message/open.rs", OptionalParameterType, u8);
    sweep!(out, viol, obs, "EvpnRouteType@src/bgp/nlri/evpn.rs", EvpnRouteType, u8);
    sweep!(out, viol, obs, "OriginType@src/bgp/types.rs", ty::OriginType, u8);
    sweep!(out, viol, obs, "RouteRefreshSubtype@src/bgp/types.rs", ty::RouteRefreshSubtype, u8);
    sweep!(out, viol, obs, "PathAttributeType@src/bgp/types.rs", ty::PathAttributeType, u8);
    sweep!(out, viol, obs, "MessageType@src/bmp/message.rs", bmp::MessageType, u8);
    sweep!(out, viol, obs, "PeerType@src/bmp/message.rs", bmp::PeerType, u8);
    sweep!(out, viol, obs, "InformationTlvType@src/bmp/message.rs", bmp::InformationTlvType, u16);
    sweep!(out, viol, obs, "MessageType@src/mrt.rs", mrt::MessageType, u16);
    sweep!(out, viol, obs, "TableDumpv2SubType@src/mrt.rs", mrt::TableDumpv2SubType, u16);
    sweep!(out, viol, obs, "Bgp4MpSubType@src/mrt.rs", mrt::Bgp4MpSubType, u16);
    sweep!(out, viol, obs, "Afi@src/bgp/nlri/afisafi.rs", Afi, u16);
    sweep!(out, viol, obs, "path_attributes::PathAttributeType@src/bgp/path_attributes.rs",
           routecore::bgp::path_attributes::PathAttributeType, u8);

    // fallible conversions
    for n in 0..=u8::MAX {
        match AddpathDirection::try_from(n) {
            Ok(v) => {
                let back = u8::from(v);
                if back != n { viol.push(format!("AddpathDirection: {n} -> {:?} -> {back}", v)); }
                if obs { writeln!(out, "ENUM AddpathDirection@src/bgp/types.rs {n} {:?} {back}", v).unwrap(); }
            }
            Err(_) => {}
        }
        match SegmentType::try_from(n) {
            Ok(v) => {
                let back = u8::from(v);
                if back != n { viol.push(format!("SegmentType: {n} -> {:?} -> {back}", v)); }
                if obs { writeln!(out, "ENUM SegmentType@src/bgp/aspath.rs {n} {:?} {back}", v).unwrap(); }
            }
            Err(_) => {}
        }
    }
    // Header::msg_type: the hand-written decoder of the message type octet, read back through u8::from(MsgType)
    {
        let key = "Header::msg_type@src/bgp/message/mod.rs";
        let mut names: std::collections::HashMap<String, u64> = Default::default();
        for n in 0..=255u8 {
            let mut h = [0xffu8; 19];
            h[16] = 0; h[17] = 19; h[18] = n;
            let v: MsgType = Header::for_slice(&h[..]).msg_type();
            let back = u8::from(v);
            let dbg = format!("{:?}", v);
            if back != n { viol.push(format!("enum {key}: {n} -> {dbg} -> {back}")); }
            if v != MsgType::from(n) { viol.push(format!("enum {key}: {n} -> {dbg} but MsgType::from gives {:?}", MsgType::from(n))); }
            if !dbg.contains('(') {
                if let Some(prev) = names.insert(dbg.clone(), n as u64) { viol.push(format!("enum {key}: {prev} and {n} both map to {dbg}")); }
            }
            if obs && (dbg != format!("Unimplemented({n})") || back != n) { writeln!(out, "ENUM {key} {n} {dbg} {back}").unwrap(); }
        }
        if obs { writeln!(out, "ENUMEND {key} 256").unwrap(); }
    }
    if obs {
        writeln!(out, "ENUMEND AddpathDirection@src/bgp/types.rs 256").unwrap();
        writeln!(out, "ENUMEND SegmentType@src/bgp/aspath.rs 256").unwrap();
    }
}

fn afisafi_obs(out: &mut impl Write, a: u16, s: u8) {
    let t = AfiSafiType::from((a, s));
    let (ba, bs): (u16, u8) = t.into();
    let bytes = t.as_bytes();
    let afi = t.afi();
    let n0 = NlriType::from((t, false));
    let n1 = NlriType::from((t, true));
    writeln!(out, "AFISAFI {a} {s} {} back={ba},{bs} bytes={},{},{} afi={} nt0={} nt1={} ntas0={} ntas1={}",
        dbg_nospace(&t), bytes[0], bytes[1], bytes[2], dbg_nospace(&afi), dbg_nospace(&n0), dbg_nospace(&n1),
        dbg_nospace(&n0.afi_safi()), dbg_nospace(&n1.afi_safi())).unwrap();
}

fn dbg_nospace<T: Debug>(t: &T) -> String {
    format!("{:?}", t).replace(' ', "")
}

fn notif(c: u8, s: u8) -> NotificationMessage<Vec<u8>> {
    let mut v = vec![0xffu8; 16];
    v.extend_from_slice(&[0, 21, 3, c, s]);
    NotificationMessage::from_octets(v).unwrap()
}

/// the same NOTIFICATION with data octets behind the subcode (a shutdown communication, the offending attribute, ...)
fn notif_data(c: u8, s: u8, data: &[u8]) -> NotificationMessage<Vec<u8>> {
    let mut v = vec![0xffu8; 16];
    v.extend_from_slice(&[0, 21 + data.len() as u8, 3, c, s]);
    v.extend_from_slice(data);
    NotificationMessage::from_octets(v).unwrap()
}

fn details_known(c: u8, s: u8) -> bool { (c == 0 || c == 4) && s != 0 }

pub fn run(args: &[String]) {
    let stdout = std::io::stdout();
    let mut out = std::io::BufWriter::new(stdout.lock());
    let mut viol: Vec<String> = Vec::new();
    let mut known: Vec<String> = Vec::new();
    match args.get(0).map(|s| s.as_str()) {
        Some("obs") => {
            all_enums(&mut out, &mut viol, true);
            // AFI/SAFI pairs on the domain given by the case file: lines "a s"
            for l in crate::util::read_lines(&args[1]) {
                let mut it = l.split_whitespace();
                let a: u16 = it.next().unwrap().parse().unwrap();
                let s: u8 = it.next().unwrap().parse().unwrap();
                afisafi_obs(&mut out, a, s);
            }
            for c in 0..=255u8 {
                for s in 0..=255u8 {
                    // the details of a NOTIFICATION do not depend on the data octets behind code and subcode: should one of the
                    // variants with data decode differently, that one is what gets printed
                    let show = |n: NotificationMessage<Vec<u8>>| { let d: Details = n.details(); let raw = d.raw();
                        format!("{} raw={},{}", dbg_nospace(&d), raw[0], raw[1]) };
                    let plain = show(notif(c, s));
                    let line = [&[s][..], &[c, s][..], &[0, 4][..], &[1, 2, 3, 4, 5][..]].iter()
                        .map(|d| show(notif_data(c, s, d))).find(|l| *l != plain).unwrap_or(plain);
                    writeln!(out, "DETAILS {c} {s} {line}").unwrap();
                }
            }
            // the NLRI type a typed iterator reports (and carries into NlriEnumIter) is the one of its family *and* ADD-PATH-ness
            {
                use routecore::bgp::nlri::afisafi::{NlriIter, NlriEnumIter, Nlri};
                let raw: Vec<u8> = vec![0, 0, 0, 1, 24, 10, 0, 1];
                macro_rules! it { ($ctor:ident, $fam:expr, $ap:expr) => {{
                    let i = NlriIter::$ctor(octseq::Parser::from_ref(&raw));
                    let want = NlriType::from(($fam, $ap));
                    let got = i.nlri_type();
                    let en: NlriEnumIter<_> = i.into();
                    let first = crate::util::guard(|| en.map(|r| r.map(|n: Nlri<_>| n.nlri_type())).next());
                    writeln!(out, "ITNT {} {}", stringify!($ctor), if got == want && (!$ap || matches!(first, Some(Some(Ok(t))) if t == want)) { "ok".to_string() }
                        else { format!("DIFF:{:?}", got) }).unwrap();
                }} }
                it!(ipv4_unicast, AfiSafiType::Ipv4Unicast, false);
                it!(ipv4_unicast_addpath, AfiSafiType::Ipv4Unicast, true);
                it!(ipv4_multicast_addpath, AfiSafiType::Ipv4Multicast, true);
                let raw: Vec<u8> = vec![0, 0, 0, 1, 32, 0x20, 1, 0x0d, 0xb8];
                it!(ipv6_unicast, AfiSafiType::Ipv6Unicast, false);
                it!(ipv6_unicast_addpath, AfiSafiType::Ipv6Unicast, true);
                it!(ipv6_multicast_addpath, AfiSafiType::Ipv6Multicast, true);
            }
            // the Send/Receive octet of an ADD-PATH capability entry, read through OpenMessage::addpath_families_vec: a defined
            // direction is reported as such, an undefined one is an error of the whole call - never an entry that quietly disappears
            for d in 0..=255u8 {
                let caps = [69u8, 8, 0, 1, 1, 3, 0, 2, 1, d];
                let mut b = vec![0xffu8; 16];
                b.extend_from_slice(&[0, (29 + 2 + caps.len()) as u8, 1, 4, 0xfd, 0xe8, 0, 90, 10, 0, 0, 1, (2 + caps.len()) as u8, 2, caps.len() as u8]);
                b.extend_from_slice(&caps);
                let r = crate::util::guard(|| match routecore::bgp::message::OpenMessage::from_octets(b.clone()) {
                    Err(_) => "REFUSED".to_string(),
                    Ok(o) => match o.addpath_families_vec() {
                        Err(_) => "E".to_string(),
                        Ok(v) => format!("ok:{}", v.iter().map(|(_, x)| u8::from(*x).to_string()).collect::<Vec<_>>().join(",")),
                    },
                }).unwrap_or("PANIC".into());
                writeln!(out, "APDIR {d} {r}").unwrap();
            }
            // FSM state code points of an MRT BGP4MP state change: read from the record, and once more after the record was widened
            // to its four-octet-AS form (From<StateChange> for StateChangeAs4 copies them)
            let codes: [u16; 12] = [0, 1, 2, 3, 4, 5, 6, 7, 8, 255, 256, 65535];
            for o in codes {
                for n in codes {
                    let mut b = vec![0u8, 1, 0, 2, 0, 0, 0, 1, 10, 0, 0, 1, 10, 0, 0, 2];
                    b.extend_from_slice(&o.to_be_bytes());
                    b.extend_from_slice(&n.to_be_bytes());
                    let r = crate::util::guard(|| {
                        let sc = routecore::mrt::StateChange::parse(&mut octseq::Parser::from_ref(&b)).unwrap();
                        let (o1, n1) = (u16::from(sc.old_state()), u16::from(sc.new_state()));
                        let w: routecore::mrt::StateChangeAs4 = sc.into();
                        format!("{o1} {n1} {} {}", u16::from(w.old_state()), u16::from(w.new_state()))
                    }).unwrap_or("PANIC".into());
                    writeln!(out, "STCH {o} {n} {r}").unwrap();
                }
            }
        }
        Some("oracle") => {
            let mut sink = std::io::sink();
            all_enums(&mut sink, &mut viol, false);
            // all 2^24 AFI/SAFI pairs
            let mut count: u64 = 0;
            let mut named: std::collections::HashMap<String, (u16, u8)> = Default::default();
            for a in 0..=u16::MAX {
                for s in 0..=u8::MAX {
                    count += 1;
                    let t = AfiSafiType::from((a, s));
                    let (ba, bs): (u16, u8) = t.into();
                    let bytes = t.as_bytes();
                    let ab = a.to_be_bytes();
                    if (ba, bs) != (a, s) {
                        viol.push(format!("afisafi ({a},{s}) -> {:?} -> ({ba},{bs})", t));
                    }
                    if bytes != [ab[0], ab[1], s] {
                        viol.push(format!("afisafi ({a},{s}) as_bytes {:?}", bytes));
                    }
                    if u16::from(t.afi()) != a {
                        viol.push(format!("afisafi ({a},{s}).afi() = {:?}", t.afi()));
                    }
                    for ap in [false, true] {
                        let n = NlriType::from((t, ap));
                        if n.afi_safi() != t {
                            viol.push(format!("nlritype ({:?},{ap}) -> {:?} -> {:?}", t, n, n.afi_safi()));
                        }
                    }
                    if !matches!(t, AfiSafiType::Unsupported(..)) {
                        let k = format!("{:?}", t);
                        if let Some(prev) = named.insert(k.clone(), (a, s)) {
                            viol.push(format!("afisafi {:?} and ({a},{s}) both map to {k}", prev));
                        }
                        let n0 = NlriType::from((t, false));
                        let n1 = NlriType::from((t, true));
                        if n0 == n1 {
                            viol.push(format!("nlritype of {k}: plain and addpath coincide"));
                        }
                    }
                    if viol.len() > 20 { break; }
                }
                if viol.len() > 20 { break; }
            }
            writeln!(out, "ORACLE afisafi_pairs={count}").unwrap();
            let mut dcount = 0u64;
            for c in 0..=255u8 {
                for s in 0..=255u8 {
                    dcount += 1;
                    let raw = notif(c, s).details().raw();
                    if raw != [c, s] {
                        if details_known(c, s) {
                            if known.len() < 2 { known.push(format!("details({c},{s}).raw() = [{},{}]", raw[0], raw[1])); }
                        } else {
                            viol.push(format!("details({c},{s}).raw() = [{},{}]", raw[0], raw[1]));
                        }
                    }
                }
            }
            writeln!(out, "ORACLE details_pairs={dcount}").unwrap();
        }
        _ => { eprintln!("usage: observe c18 obs <file> | oracle"); std::process::exit(2); }
    }
    for k in &known { writeln!(out, "KNOWN K2 {k}").unwrap(); }
    for v in viol.iter().take(20) { writeln!(out, "VIOL {v}").unwrap(); }
    out.flush().unwrap();
}
