// C06 / C07: UpdateBuilder on the real crate.
//
// case lines:
//   BLD <id> <four> <addpath> <fam> <ap 0|1> <mode M|I|S|K> <ops>
//        ops = ';'-separated, in order:  T:<hex of attribute TLVs>  A:<nlri hex>  W:<nlri hex>  N:<kind>:<hex>
//              AI:<hex,hex,..|->  WI:<..>  WV:<..>  announcements_from_iter / withdrawals_from_iter / append_withdrawals
//        mode M = into_messages, I = into_pdu_iter (capped), S = into_message, K = one take_message
//   REB <id> <four> <addpath> <fam> <ap 0|1> <update hex>
//        re-encode a received UPDATE: directly, through PaMap, through a builder seeded from the message
use std::fmt::Debug;
use std::io::Write;
use std::net::{IpAddr, Ipv4Addr, Ipv6Addr};

use octseq::Parser;
use routecore::bgp::message::update_builder::{ComposeError, UpdateBuilder};
use routecore::bgp::message::{PduParseInfo, SessionConfig, UpdateMessage};
use routecore::bgp::nlri::afisafi::*;
use routecore::bgp::nlri::mpls_vpn::RouteDistinguisher;
use routecore::bgp::path_attributes::{PaMap, PathAttributes};
use routecore::bgp::types::NextHop;
use crate::c01::session_config;
use crate::util::{guard, hex, unhex};

fn err_s(e: &ComposeError) -> String {
    match e {
        ComposeError::EmptyMpReachNlri => "EmptyReach".into(),
        ComposeError::EmptyMpUnreachNlri => "EmptyUnreach".into(),
        ComposeError::PduTooLarge(n) => format!("TooLarge:{n}"),
        ComposeError::ParseError(_) => "Parse".into(),
        ComposeError::IllegalCombination => "Illegal".into(),
        ComposeError::InvalidAttribute => "InvalidAttribute".into(),
        other => format!("Other:{:?}", other),
    }
}

fn nexthop(kind: &str, h: &str) -> NextHop {
    let b = unhex(h);
    fn ip(b: &[u8]) -> IpAddr {
        if b.len() == 4 { IpAddr::V4(Ipv4Addr::new(b[0], b[1], b[2], b[3])) }
        else { let a: [u8; 16] = b.try_into().unwrap(); IpAddr::V6(Ipv6Addr::from(a)) }
    }
    match kind {
        "U" => NextHop::Unicast(ip(&b)),
        "M" => NextHop::Multicast(ip(&b)),
        "L" => { let a: [u8; 16] = b[..16].try_into().unwrap(); let c: [u8; 16] = b[16..].try_into().unwrap();
                 NextHop::Ipv6LL(Ipv6Addr::from(a), Ipv6Addr::from(c)) }
        "V" => { let rd: [u8; 8] = b[..8].try_into().unwrap(); NextHop::MplsVpnUnicast(RouteDistinguisher::new(rd), ip(&b[8..])) }
        "E" => NextHop::Empty,
        "X" => NextHop::Unimplemented(AfiSafiType::Unsupported(99, 9)),
        _ => panic!("nexthop kind"),
    }
}

fn leak(v: Vec<u8>) -> &'static Vec<u8> { Box::leak(Box::new(v)) }

fn res_s(r: &Result<UpdateMessage<Vec<u8>>, ComposeError>) -> String {
    match r { Ok(m) => format!("ok:{}", hex(m.as_ref())), Err(e) => format!("err:{}", err_s(e)) }
}

fn build<T>(sc: &SessionConfig, mode: &str, ops: &str) -> String
where
    T: NlriParse<'static, &'static [u8], Vec<u8>, Output = T> + AfiSafiNlri + NlriCompose + Debug + Clone,
{
    let mut n_items = 0usize;
    let prep = guard(|| {
        let mut b: UpdateBuilder<Vec<u8>, T> = UpdateBuilder::new_vec();
        let mut notes = vec![];
        for op in ops.split(';').filter(|s| !s.is_empty() && *s != "-") {
            let (k, rest) = op.split_once(':').unwrap();
            match k {
                "T" => {
                    let buf = leak(unhex(rest));
                    let mut map = PaMap::empty();
                    for pa in PathAttributes::new(Parser::from_ref(buf), PduParseInfo::modern()) {
                        let _ = map.add_attribute(pa.unwrap().to_owned().unwrap());
                    }
                    let mut nb: UpdateBuilder<Vec<u8>, T> = UpdateBuilder::from_attributes_builder(map);
                    std::mem::swap(&mut b, &mut nb);
                }
                "A" | "W" => {
                    let buf = leak(unhex(rest));
                    let mut p = Parser::from_ref(buf);
                    let n = T::parse(&mut p).unwrap();
                    assert_eq!(p.remaining(), 0);
                    if k == "A" { b.add_announcement(n).unwrap(); } else { b.add_withdrawal(n).unwrap(); }
                    n_items += 1;
                }
                "AI" | "WI" | "WV" => {
                    // the bulk entry points, with any number of items (none included)
                    let mut v = vec![];
                    for h in rest.split(',').filter(|h| !h.is_empty() && *h != "-") {
                        let buf = leak(unhex(h));
                        let mut p = Parser::from_ref(buf);
                        v.push(T::parse(&mut p).unwrap());
                        assert_eq!(p.remaining(), 0);
                        n_items += 1;
                    }
                    match k {
                        "AI" => b.announcements_from_iter(v).unwrap(),
                        "WI" => b.withdrawals_from_iter(v).unwrap(),
                        _ => b.append_withdrawals(v).unwrap(),
                    }
                }
                "LL" => {
                    // the link-local part of an IPv6 next hop, set (again) on its own
                    let a: [u8; 16] = unhex(rest)[..].try_into().unwrap();
                    b.set_nexthop_ll_addr(Ipv6Addr::from(a)).unwrap();
                }
                "N" => {
                    let (kind, h) = rest.split_once(':').unwrap();
                    if let Err(e) = b.set_nexthop(nexthop(kind, h)) { notes.push(format!("nh-err:{}", err_s(&e))); }
                }
                _ => panic!("op"),
            }
        }
        (b, notes)
    });
    let Some((b, notes)) = prep else { return "PREP-PANIC".into() };
    let cap = n_items + 4;
    let run = guard(move || {
        match mode {
            "S" => res_s(&b.into_message(sc)),
            "K" => { let (r, rem) = b.take_message(sc); format!("{} rem={}", res_s(&r), rem.is_some() as u8) }
            "M" => {
                // into_messages has no cap of its own: run it on the iterator first to detect non-termination
                let mut cnt = 0;
                let mut hang = false;
                let items: Vec<_> = {
                    let mut v = vec![];
                    let mut rem = Some(b);
                    while let Some(x) = rem.take() {
                        cnt += 1;
                        if cnt > cap { hang = true; break; }
                        let (r, nr) = x.take_message(sc);
                        let stop = r.is_err();
                        v.push(r);
                        if stop { break; }
                        rem = nr;
                    }
                    v
                };
                if hang { return "HANG".into(); }
                match items.last() {
                    Some(Err(e)) => format!("err:{}", err_s(e)),
                    _ => format!("ok n={} {}", items.len(), items.iter().map(|r| hex(r.as_ref().unwrap().as_ref())).collect::<Vec<_>>().join(" ")),
                }
            }
            "I" => {
                let mut v = vec![];
                for (i, r) in b.into_pdu_iter(sc).enumerate() {
                    if i >= cap { v.push("HANG".to_string()); break; }
                    v.push(res_s(&r));
                }
                format!("n={} {}", v.len(), v.join(" "))
            }
            _ => panic!("mode"),
        }
    });
    format!("{}{}", run.unwrap_or("PANIC".into()), if notes.is_empty() { String::new() } else { format!(" {}", notes.join(" ")) })
}

fn rebuild<T>(sc: &SessionConfig, bytes: &'static Vec<u8>) -> String
where
    T: NlriParse<'static, &'static [u8], Vec<u8>, Output = T> + AfiSafiNlri + NlriCompose + Debug + Clone,
{
    let pdu = match guard(|| UpdateMessage::from_octets(bytes.clone(), sc)) { None => return "parse=PANIC".into(), Some(Err(_)) => return "parse=E".into(), Some(Ok(p)) => p };
    let pdu: &'static UpdateMessage<Vec<u8>> = Box::leak(Box::new(pdu));
    let direct = guard(|| -> Result<Vec<u8>, String> {
        let mut out = vec![];
        for pa in pdu.path_attributes().map_err(|_| "E".to_string())? {
            let pa = pa.map_err(|_| "E-item".to_string())?;
            let o = pa.to_owned().map_err(|_| "E-owned".to_string())?;
            let before = out.len();
            o.compose(&mut out).unwrap();
            if out.len() - before != o.compose_len() { return Err("LEN".into()); }
        }
        Ok(out)
    });
    let direct = match direct { None => "PANIC".into(), Some(Ok(v)) => format!("ok:{}", hex(&v)), Some(Err(e)) => format!("err:{e}") };
    let pamap = guard(|| -> Result<Vec<u8>, String> {
        let m = PaMap::from_update_pdu(pdu).map_err(|e| err_s(&e))?;
        let mut out = vec![];
        for (_tc, pa) in m.attributes() { pa.compose(&mut out).unwrap(); }
        if out.len() != m.bytes_len() { return Err("LEN".into()); }
        Ok(out)
    });
    let pamap = match pamap { None => "PANIC".into(), Some(Ok(v)) => format!("ok:{}", hex(&v)), Some(Err(e)) => format!("err:{e}") };
    let builder = guard(|| -> String {
        let mut b: UpdateBuilder<Vec<u8>, T> = match UpdateBuilder::from_update_message(pdu, sc, Vec::new()) {
            Ok(b) => b, Err(e) => return format!("err:seed:{}", err_s(&e)) };
        b.add_announcements_from_pdu::<Vec<u8>, &'static [u8]>(pdu, sc);
        b.add_withdrawals_from_pdu::<Vec<u8>, &'static [u8]>(pdu, sc);
        if let Ok(Some(nh)) = pdu.mp_next_hop() {
            if pdu.announcements().is_ok_and(|i| i.count() > 0) { let _ = b.set_nexthop(nh); }
        }
        res_s(&b.into_message(sc))
    });
    // the same builder, with the withdrawals of the PDU added twice (a builder that collects from more than one source): what
    // was added first stays
    let builder2 = guard(|| -> String {
        let mut b: UpdateBuilder<Vec<u8>, T> = match UpdateBuilder::from_update_message(pdu, sc, Vec::new()) {
            Ok(b) => b, Err(e) => return format!("err:seed:{}", err_s(&e)) };
        b.add_withdrawals_from_pdu::<Vec<u8>, &'static [u8]>(pdu, sc);
        b.add_announcements_from_pdu::<Vec<u8>, &'static [u8]>(pdu, sc);
        b.add_withdrawals_from_pdu::<Vec<u8>, &'static [u8]>(pdu, sc);
        if let Ok(Some(nh)) = pdu.mp_next_hop() {
            if pdu.announcements().is_ok_and(|i| i.count() > 0) { let _ = b.set_nexthop(nh); }
        }
        res_s(&b.into_message(sc))
    });
    format!("direct={} pamap={} builder={} builder2={}", direct, pamap, builder.unwrap_or("PANIC".into()), builder2.unwrap_or("PANIC".into()))
}

macro_rules! dispatch {
    ($fam:expr, $ap:expr, $f:ident, $($arg:expr),*) => {
        match ($fam, $ap) {
            ("Ipv4Unicast", false) => $f::<Ipv4UnicastNlri>($($arg),*),
            ("Ipv4Unicast", true) => $f::<Ipv4UnicastAddpathNlri>($($arg),*),
            ("Ipv4Multicast", false) => $f::<Ipv4MulticastNlri>($($arg),*),
            ("Ipv4Multicast", true) => $f::<Ipv4MulticastAddpathNlri>($($arg),*),
            ("Ipv4MplsUnicast", false) => $f::<Ipv4MplsUnicastNlri<&[u8]>>($($arg),*),
            ("Ipv4MplsUnicast", true) => $f::<Ipv4MplsUnicastAddpathNlri<&[u8]>>($($arg),*),
            ("Ipv4MplsVpnUnicast", false) => $f::<Ipv4MplsVpnUnicastNlri<&[u8]>>($($arg),*),
            ("Ipv4MplsVpnUnicast", true) => $f::<Ipv4MplsVpnUnicastAddpathNlri<&[u8]>>($($arg),*),
            ("Ipv4RouteTarget", false) => $f::<Ipv4RouteTargetNlri<&[u8]>>($($arg),*),
            ("Ipv4RouteTarget", true) => $f::<Ipv4RouteTargetAddpathNlri<&[u8]>>($($arg),*),
            ("Ipv4FlowSpec", false) => $f::<Ipv4FlowSpecNlri<&[u8]>>($($arg),*),
            ("Ipv4FlowSpec", true) => $f::<Ipv4FlowSpecAddpathNlri<&[u8]>>($($arg),*),
            ("Ipv6Unicast", false) => $f::<Ipv6UnicastNlri>($($arg),*),
            ("Ipv6Unicast", true) => $f::<Ipv6UnicastAddpathNlri>($($arg),*),
            ("Ipv6Multicast", false) => $f::<Ipv6MulticastNlri>($($arg),*),
            ("Ipv6Multicast", true) => $f::<Ipv6MulticastAddpathNlri>($($arg),*),
            ("Ipv6MplsUnicast", false) => $f::<Ipv6MplsUnicastNlri<&[u8]>>($($arg),*),
            ("Ipv6MplsUnicast", true) => $f::<Ipv6MplsUnicastAddpathNlri<&[u8]>>($($arg),*),
            ("Ipv6MplsVpnUnicast", false) => $f::<Ipv6MplsVpnUnicastNlri<&[u8]>>($($arg),*),
            ("Ipv6MplsVpnUnicast", true) => $f::<Ipv6MplsVpnUnicastAddpathNlri<&[u8]>>($($arg),*),
            ("Ipv6FlowSpec", false) => $f::<Ipv6FlowSpecNlri<&[u8]>>($($arg),*),
            ("Ipv6FlowSpec", true) => $f::<Ipv6FlowSpecAddpathNlri<&[u8]>>($($arg),*),
            ("L2VpnVpls", false) => $f::<L2VpnVplsNlri>($($arg),*),
            ("L2VpnVpls", true) => $f::<L2VpnVplsAddpathNlri>($($arg),*),
            ("L2VpnEvpn", false) => $f::<L2VpnEvpnNlri<&[u8]>>($($arg),*),
            ("L2VpnEvpn", true) => $f::<L2VpnEvpnAddpathNlri<&[u8]>>($($arg),*),
            _ => panic!("unknown family"),
        }
    };
}

pub fn run(args: &[String]) {
    let stdout = std::io::stdout();
    let mut out = std::io::BufWriter::new(stdout.lock());
    for line in crate::util::read_lines(&args[0]) {
        let f: Vec<&str> = line.split_whitespace().collect();
        if f.is_empty() { continue; }
        let sc = session_config(f[2] == "1", f[3]);
        let sc: &'static SessionConfig = Box::leak(Box::new(sc));
        let fam: &str = f[4];
        let ap = f[5] == "1";
        let s = match f[0] {
            "BLD" => { let mode: &'static str = Box::leak(f[6].to_string().into_boxed_str());
                       let ops: &'static str = Box::leak(f.get(7).unwrap_or(&"-").to_string().into_boxed_str());
                       dispatch!(fam, ap, build, sc, mode, ops) }
            "REB" => { let bytes = leak(unhex(f[6])); dispatch!(fam, ap, rebuild, sc, bytes) }
            _ => panic!("bad case line"),
        };
        writeln!(out, "{} {} {}", f[0], f[1], s).unwrap();
    }
    out.flush().unwrap();
}
