// C04 / C07: path attributes on the real crate.
//
// case lines:
//   ATTR <id> <code> <args...>     build the typed value, compose, compose_len, parse back (4-octet), to_owned
//   RAW  <id> <four 0|1> <hex>     parse the first attribute of the octets, to_owned, compose again
use std::io::Write;
use std::net::Ipv4Addr;
use inetnum::asn::Asn;
use octseq::Parser;
use routecore::bgp::aspath::HopPath;
use routecore::bgp::communities::{ExtendedCommunity, Ipv6ExtendedCommunity};
use routecore::bgp::message::PduParseInfo;
use routecore::bgp::message::update_builder::StandardCommunitiesList;
use routecore::bgp::path_attributes::*;
use routecore::bgp::types::*;
use crate::util::{guard, hex, unhex};

pub fn hop_path(tokens: &str) -> HopPath {
    let mut hp = HopPath::new();
    if tokens == "-" { return hp; }
    for t in tokens.split(';') {
        if let Some(a) = t.strip_prefix('a') { hp.append(Asn::from_u32(a.parse().unwrap())); }
        else {
            let (ty, list) = t[1..].split_once(':').unwrap();
            let asns: Vec<Asn> = list.split(',').filter(|x| !x.is_empty()).map(|x| Asn::from_u32(x.parse().unwrap())).collect();
            match ty { "1" => hp.append_set(asns), "3" => hp.append_confed_sequence(asns), "4" => hp.append_confed_set(asns), _ => panic!("type") }
        }
    }
    hp
}

fn u32s(s: &str) -> Vec<u32> { if s == "-" { vec![] } else { s.split(',').map(|x| x.parse().unwrap()).collect() } }
fn hexes(s: &str) -> Vec<Vec<u8>> { if s == "-" { vec![] } else { s.split(',').map(unhex).collect() } }

pub fn build(code: u8, a: &[&str]) -> PathAttribute {
    let ppi = PduParseInfo::modern();
    match code {
        1 => Origin(OriginType::from(a[0].parse::<u8>().unwrap())).into(),
        2 => hop_path(a[0]).into(),
        3 => ConventionalNextHop(Ipv4Addr::from(a[0].parse::<u32>().unwrap())).into(),
        4 => MultiExitDisc(a[0].parse().unwrap()).into(),
        5 => LocalPref(a[0].parse().unwrap()).into(),
        6 => AtomicAggregate.into(),
        7 => AggregatorInfo::new(Asn::from_u32(a[0].parse().unwrap()), Ipv4Addr::from(a[1].parse::<u32>().unwrap())).into(),
        8 => {
            // the public way to make a COMMUNITIES value: UpdateBuilder::add_community, one at a time (its bookkeeping - length so
            // far, extended-length flag - is part of the typed value that a decoded attribute has to equal)
            let vals = u32s(a[0]);
            if vals.is_empty() {
                let raw: Vec<u8> = vec![];
                StandardCommunitiesList::parse(&mut Parser::from_ref(&raw), ppi).unwrap().into()
            } else {
                let mut b = routecore::bgp::message::update_builder::UpdateBuilder::<Vec<u8>, routecore::bgp::nlri::afisafi::Ipv4UnicastNlri>::new_vec();
                for v in vals { b.add_community(v.into()).unwrap(); }
                b.attributes().get::<StandardCommunitiesList>().unwrap().into()
            }
        }
        9 => OriginatorId(Ipv4Addr::from(a[0].parse::<u32>().unwrap())).into(),
        10 => { let raw: Vec<u8> = u32s(a[0]).iter().flat_map(|x| x.to_be_bytes()).collect();
                ClusterIds::parse(&mut Parser::from_ref(&raw), ppi).unwrap().into() }
        16 => ExtendedCommunitiesList::new(hexes(a[0]).iter().map(|b| ExtendedCommunity::from_raw(b[..].try_into().unwrap())).collect()).into(),
        17 => As4Path(hop_path(a[0])).into(),
        18 => As4Aggregator(AggregatorInfo::new(Asn::from_u32(a[0].parse().unwrap()), Ipv4Addr::from(a[1].parse::<u32>().unwrap()))).into(),
        20 => Connector(Ipv4Addr::from(a[0].parse::<u32>().unwrap())).into(),
        21 => AsPathLimitInfo::new(a[0].parse().unwrap(), Asn::from_u32(a[1].parse().unwrap())).into(),
        25 => Ipv6ExtendedCommunitiesList::new(hexes(a[0]).iter().map(|b| Ipv6ExtendedCommunity::from_raw(b[..].try_into().unwrap())).collect()).into(),
        32 => { let raw: Vec<u8> = hexes(a[0]).concat();
                LargeCommunitiesList::parse(&mut Parser::from_ref(&raw), ppi).unwrap().into() }
        35 => Otc(Asn::from_u32(a[0].parse().unwrap())).into(),
        128 => AttributeSet::new(Asn::from_u32(a[0].parse().unwrap()), unhex(a[1])).into(),
        255 => ReservedRaw::new(unhex(a[0])).into(),
        _ => panic!("code"),
    }
}

fn kind(w: &WireformatPathAttribute<Vec<u8>>) -> &'static str {
    match w { WireformatPathAttribute::Unimplemented(_) => "U", WireformatPathAttribute::Invalid(..) => "I", _ => "T" }
}

pub fn describe_owned(pa: &PathAttribute) -> String {
    let mut out = Vec::new();
    let c = guard(|| { pa.compose(&mut out).unwrap(); });
    let cl = guard(|| pa.compose_len());
    let k = match pa { PathAttribute::Unimplemented(_) => "U", PathAttribute::Invalid(..) => "I", _ => "T" };
    format!("{k}:{}:{}:{}", pa.type_code(),
        if c.is_some() { hex(&out) } else { "PANIC".into() },
        cl.map(|x| x.to_string()).unwrap_or("PANIC".into()))
}

pub fn run(args: &[String]) {
    let stdout = std::io::stdout();
    let mut out = std::io::BufWriter::new(stdout.lock());
    for l in crate::util::read_lines(&args[0]) {
        let f: Vec<&str> = l.split_whitespace().collect();
        if f.is_empty() { continue; }
        match f[0] {
            "ATTR" => {
                let code: u8 = f[2].parse().unwrap();
                let r = guard(|| {
                    let pa = build(code, &f[3..]);
                    let mut bytes = Vec::new();
                    let c = guard(|| { pa.compose(&mut bytes).unwrap(); });
                    let cl = guard(|| pa.compose_len());
                    if c.is_none() { return format!("comp=PANIC clen={}", cl.map(|x| x.to_string()).unwrap_or("PANIC".into())); }
                    let mut it = PathAttributes::new(Parser::from_ref(&bytes), PduParseInfo::modern());
                    let w = it.next();
                    let more = it.next().is_some();
                    let back = match &w {
                        Some(Ok(w)) => {
                            let o = w.to_owned();
                            format!("parsed={} flags={} code={} len={} owned_eq={}", kind(w), u8::from(w.flags()), w.type_code(), w.length(),
                                match o { Ok(o) => (o == pa) as u8, Err(_) => 2 })
                        }
                        Some(Err(_)) => "parsed=E".to_string(),
                        None => "parsed=NONE".to_string(),
                    };
                    format!("comp={} clen={} {back} more={}", hex(&bytes), cl.map(|x| x.to_string()).unwrap_or("PANIC".into()), more as u8)
                });
                writeln!(out, "ATTR {} {}", f[1], r.unwrap_or("PANIC".into())).unwrap();
            }
            "RAW" => {
                let four = f[2] == "1";
                let bytes = unhex(f[3]);
                let r = guard(|| {
                    let ppi = if four { PduParseInfo::modern() } else { PduParseInfo::legacy() };
                    let mut it = PathAttributes::new(Parser::from_ref(&bytes), ppi);
                    match it.next() {
                        None => "NONE".to_string(),
                        Some(Err(_)) => "E".to_string(),
                        Some(Ok(w)) => {
                            let o = guard(|| w.to_owned());
                            let os = match o { None => "PANIC".into(), Some(Err(_)) => "E".into(), Some(Ok(pa)) => describe_owned(&pa) };
                            format!("{} flags={} code={} len={} owned={}", kind(&w), u8::from(w.flags()), w.type_code(), w.length(), os)
                        }
                    }
                });
                writeln!(out, "RAW {} {}", f[1], r.unwrap_or("PANIC".into())).unwrap();
            }
            _ => {}
        }
    }
    out.flush().unwrap();
}
