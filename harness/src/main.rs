// Observation / oracle binary for the routecore verification framework.
// Every call into routecore goes through `guard` (catch_unwind), so a panic is an
// observation (`PANIC`), never a crashed check.
#![allow(clippy::all)]
#![allow(unexpected_cfgs)]

mod util;
mod c18;
mod c12;
mod c10;
mod c05;
mod c13;
mod c04;
mod c01;
mod c06;
mod c17;
mod c03;
mod c08;
mod c15;
mod c16;
mod c19;
mod c20;

fn main() {
    // silence the default panic message: panics are observations here
    std::panic::set_hook(Box::new(|_| {}));
    let args: Vec<String> = std::env::args().collect();
    if args.len() < 2 {
        eprintln!("usage: observe <property> [args..]");
        std::process::exit(2);
    }
    let rest = &args[2..];
    match args[1].as_str() {
        "c18" => c18::run(rest),
        "c12" => c12::run(rest),
        "c10" | "c11" => c10::run(rest),
        "c05" | "c14" => c05::run(rest),
        "c13" => c13::run(rest),
        "c04" => c04::run(rest),
        "c06" | "c07" => c06::run(rest),
        "c17" => c17::run(rest),
        "c03" => c03::run(rest),
        "c08" | "c09" => c08::run(rest),
        "c15" => c15::run(rest),
        "c16" => c16::run(rest),
        "c19" => c19::run(rest),
        "c20" => c20::run(rest),
        "c01" | "c02" => c01::run(rest),
        other => {
            eprintln!("unknown subcommand {other}");
            std::process::exit(2);
        }
    }
}
