// C12: the configuration derived from two OPEN messages, through the intersection helper and
// the BMP peer-up derivations.  (The live session path is observed by c08/c12-live.)
//
// case line:  <id> <hex local OPEN> <hex peer OPEN> <legacy 0|1> <probe families a.s,a.s,...>
use std::io::Write;
use routecore::bgp::message::{OpenMessage, SessionConfig};
use routecore::bgp::message::update::FourOctetAsns;
use routecore::bgp::types::{AfiSafiType, AddpathDirection};
use routecore::bmp::message::{Message as BmpMsg};
use crate::util::{guard, unhex};

fn dirnum(d: Option<AddpathDirection>) -> u8 {
    match d { None => 0, Some(x) => u8::from(x) }
}

fn describe(sc: &SessionConfig, probes: &[(u16, u8)]) -> String {
    let mut parts = vec![];
    for (a, s) in probes {
        let f = AfiSafiType::from((*a, *s));
        parts.push(format!("{a}.{s}:{}{}", dirnum(sc.get_addpath(f)), if sc.rx_addpath(f) { "r" } else { "-" }));
    }
    format!("four={} fams={}", sc.four_octet_enabled() as u8, parts.join(","))
}

pub fn peer_up(local: &[u8], peer: &[u8], legacy: bool, other_flags: u8) -> Vec<u8> {
    let total = 6 + 42 + 20 + local.len() + peer.len();
    let mut v = vec![3u8];
    v.extend_from_slice(&(total as u32).to_be_bytes());
    v.push(3);
    // per peer header
    v.push(0);
    // the A flag (legacy AS_PATH format) next to every combination of the V, L and O flags, which say nothing about the AS width
    v.push((if legacy { 0x20 } else { 0 }) | other_flags);
    v.extend_from_slice(&[0u8; 8]);
    v.extend_from_slice(&[0u8; 12]); v.extend_from_slice(&[10, 0, 0, 1]);
    v.extend_from_slice(&65000u32.to_be_bytes());
    v.extend_from_slice(&[10, 0, 0, 1]);
    v.extend_from_slice(&[0u8; 8]);
    // local address, ports
    v.extend_from_slice(&[0u8; 12]); v.extend_from_slice(&[10, 0, 0, 2]);
    v.extend_from_slice(&179u16.to_be_bytes());
    v.extend_from_slice(&40000u16.to_be_bytes());
    v.extend_from_slice(local);
    v.extend_from_slice(peer);
    v
}

pub fn run(args: &[String]) {
    let stdout = std::io::stdout();
    let mut out = std::io::BufWriter::new(stdout.lock());
    for l in crate::util::read_lines(&args[0]) {
        let f: Vec<&str> = l.split_whitespace().collect();
        if f.len() < 5 { continue; }
        let id = f[0];
        let local = unhex(f[1]);
        let peer = unhex(f[2]);
        let legacy = f[3] == "1";
        let probes: Vec<(u16, u8)> = f[4].split(',').filter(|x| !x.is_empty()).map(|p| {
            let mut it = p.split('.');
            (it.next().unwrap().parse().unwrap(), it.next().unwrap().parse().unwrap())
        }).collect();
        // helper path
        let helper = guard(|| {
            let s = OpenMessage::from_octets(local.clone()).map_err(|_| ())?;
            let r = OpenMessage::from_octets(peer.clone()).map_err(|_| ())?;
            let mut sc = SessionConfig::modern();
            sc.set_four_octet_asns(FourOctetAsns(s.four_octet_capable() && r.four_octet_capable()));
            let isect = s.addpath_intersection(&r);
            let raw: Vec<String> = isect.iter().map(|fd| {
                let (a, sf): (u16, u8) = fd.fam().into();
                format!("{a}.{sf}:{}", u8::from(fd.dir()))
            }).collect();
            for fd in isect { sc.add_famdir(fd); }
            Ok::<String, ()>(format!("isect={} {}", if raw.is_empty() { "-".to_string() } else { raw.join(",") }, describe(&sc, &probes)))
        });
        let h = match helper { None => "PANIC".to_string(), Some(Err(())) => "E".to_string(), Some(Ok(s)) => s };
        writeln!(out, "C12 {id} helper {h}").unwrap();
        // BMP path
        let bmp = guard(|| {
            let other = [0x00u8, 0x80, 0x40, 0xc0, 0x10, 0x90, 0x50, 0xd0][id.parse::<usize>().unwrap_or(0) % 8];
            let bytes = peer_up(&local, &peer, legacy, other);
            let m = BmpMsg::from_octets(bytes).map_err(|_| ())?;
            if let BmpMsg::PeerUpNotification(pu) = m {
                let sc = pu.session_config();
                let (pph, inc) = pu.pph_session_config();
                Ok::<(String, String), ()>((describe(&sc, &probes),
                    format!("incons={} {}", inc.is_some() as u8, describe(&pph, &probes))))
            } else { Err(()) }
        });
        match bmp {
            None => { writeln!(out, "C12 {id} bmp PANIC").unwrap(); writeln!(out, "C12 {id} pph PANIC").unwrap(); }
            Some(Err(())) => { writeln!(out, "C12 {id} bmp E").unwrap(); writeln!(out, "C12 {id} pph E").unwrap(); }
            Some(Ok((a, b))) => { writeln!(out, "C12 {id} bmp {a}").unwrap(); writeln!(out, "C12 {id} pph {b}").unwrap(); }
        }
    }
    out.flush().unwrap();
}
