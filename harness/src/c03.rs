// C03: OPEN / NOTIFICATION / KEEPALIVE / ROUTE-REFRESH on the real crate.
//
// case lines:
//   OPEN <id> <hex>    NOTIF <id> <hex>    KEEP <id> <hex>    RR <id> <hex>    MSG <id> <hex>
//   OB <id> <ops>      OpenBuilder: asn=<n>;hold=<n>;id=<hex>;cap=<hex>;four=<n>;mp=<afi>.<safi>;ap=<afi>.<safi>.<dir>
//   NB <id> <code> <sub> <data hex|none>     NotificationBuilder
//   KB <id>            KeepaliveBuilder
use std::io::Write;
use inetnum::asn::Asn;
use routecore::bgp::message::keepalive::{KeepaliveBuilder, KeepaliveMessage};
use routecore::bgp::message::notification::{NotificationBuilder, NotificationMessage};
use routecore::bgp::message::open::{Capability, OpenBuilder, OpenMessage};
use routecore::bgp::message::routerefresh::RouteRefreshMessage;
use routecore::bgp::message::Message;
use routecore::bgp::types::{AddpathDirection, AfiSafiType};
use crate::util::{guard, hex, unhex};

fn fam(t: AfiSafiType) -> String { let (a, s): (u16, u8) = t.into(); format!("{a}.{s}") }

fn open(b: Vec<u8>) -> String {
    let m = match guard(|| OpenMessage::from_octets(b)) { None => return "PANIC".into(), Some(Err(_)) => return "E".into(), Some(Ok(m)) => m };
    let g = |f: &dyn Fn() -> String| guard(std::panic::AssertUnwindSafe(f)).unwrap_or("PANIC".into());
    let ver = g(&|| m.version().to_string());
    let asn = g(&|| m.my_asn().into_u32().to_string());
    let hold = g(&|| m.holdtime().to_string());
    let id = g(&|| hex(m.identifier()));
    let opl = g(&|| m.opt_parm_len().to_string());
    let params = g(&|| { let v: Vec<String> = m.parameters().map(|p| u8::from(p.typ()).to_string()).collect(); format!("{}[{}]", v.len(), v.join(",")) });
    let caps = g(&|| { let v: Vec<String> = m.capabilities().map(|c| format!("{}:{}", u8::from(c.typ()), hex(c.value()))).collect(); format!("{}[{}]", v.len(), v.join(",")) });
    let four = g(&|| (m.four_octet_capable() as u8).to_string());
    let mp = g(&|| { let v: Vec<String> = m.multiprotocol_ids().map(fam).collect(); format!("[{}]", v.join(",")) });
    let ap = g(&|| match m.addpath_families_vec() { Err(_) => "E".into(), Ok(v) => { let s: Vec<String> = v.iter().map(|(f, d)| format!("{}:{}", fam(*f), u8::from(*d))).collect(); format!("[{}]", s.join(",")) } });
    let sw = g(&|| m.get_software_version().map(|_| "some".to_string()).unwrap_or("none".into()));
    let len = g(&|| m.length().to_string());
    format!("ok len={len} ver={ver} asn={asn} hold={hold} id={id} opl={opl} params={params} caps={caps} four={four} mp={mp} ap={ap} sw={sw}")
}

fn notif(b: Vec<u8>) -> String {
    let m = match guard(|| NotificationMessage::from_octets(b)) { None => return "PANIC".into(), Some(Err(_)) => return "E".into(), Some(Ok(m)) => m };
    let g = |f: &dyn Fn() -> String| guard(std::panic::AssertUnwindSafe(f)).unwrap_or("PANIC".into());
    let code = g(&|| u8::from(m.code()).to_string());
    let raw = g(&|| { let r = m.details().raw(); format!("{},{}", r[0], r[1]) });
    let data = g(&|| m.data().map(|d| hex(d)).unwrap_or("none".into()));
    format!("ok code={code} raw={raw} data={data}")
}

pub fn run(args: &[String]) {
    let stdout = std::io::stdout();
    let mut out = std::io::BufWriter::new(stdout.lock());
    for line in crate::util::read_lines(&args[0]) {
        let f: Vec<&str> = line.split_whitespace().collect();
        if f.is_empty() { continue; }
        let s = match f[0] {
            "OPEN" => open(unhex(f[2])),
            "NOTIF" => notif(unhex(f[2])),
            "KEEP" => match guard(|| KeepaliveMessage::from_octets(unhex(f[2]))) { None => "PANIC".into(), Some(Err(_)) => "E".into(), Some(Ok(_)) => "ok".into() },
            "RR" => match guard(|| RouteRefreshMessage::from_octets(unhex(f[2]))) { None => "PANIC".into(), Some(Err(_)) => "E".into(),
                        Some(Ok(m)) => format!("ok fam={} sub={}", fam(m.afisafi()), u8::from(m.subtype())) },
            "MSG" => match guard(|| Message::from_octets(unhex(f[2]), None)) { None => "PANIC".into(), Some(Err(_)) => "E".into(),
                        Some(Ok(m)) => match m { Message::Open(_) => "open".into(), Message::Update(_) => "update".into(), Message::Notification(_) => "notification".into(),
                                                 Message::Keepalive(_) => "keepalive".into(), Message::RouteRefresh(_) => "routerefresh".into() } },
            "OB" => {
                let ops = f.get(2).unwrap_or(&"").to_string();
                guard(move || {
                    let mut b = OpenBuilder::new_vec();
                    for op in ops.split(';').filter(|s| !s.is_empty()) {
                        let (k, v) = op.split_once('=').unwrap();
                        match k {
                            "asn" => b.set_asn(Asn::from_u32(v.parse().unwrap())),
                            "hold" => b.set_holdtime(v.parse().unwrap()),
                            "id" => b.set_bgp_id(unhex(v).try_into().unwrap()),
                            "cap" => b.add_capability(Capability::new(unhex(v))),
                            "four" => b.four_octet_capable(Asn::from_u32(v.parse().unwrap())),
                            "mp" => { let (a, s) = v.split_once('.').unwrap(); b.add_mp(AfiSafiType::from((a.parse::<u16>().unwrap(), s.parse::<u8>().unwrap()))) }
                            "ap" => { let p: Vec<&str> = v.split('.').collect();
                                      b.add_addpath(AfiSafiType::from((p[0].parse::<u16>().unwrap(), p[1].parse::<u8>().unwrap())),
                                                    AddpathDirection::try_from(p[2].parse::<u8>().unwrap()).unwrap()) }
                            _ => panic!("op"),
                        }
                    }
                    format!("ok:{}", hex(&b.finish()))
                }).unwrap_or("PANIC".into())
            }
            "NB" => {
                let (c, s): (u8, u8) = (f[2].parse().unwrap(), f[3].parse().unwrap());
                let data = if f[4] == "none" { None } else { Some(unhex(f[4])) };
                guard(move || {
                    let mut v = vec![0xffu8; 16]; v.extend_from_slice(&[0, 21, 3, c, s]);
                    let d = NotificationMessage::from_octets(v).unwrap().details();
                    match NotificationBuilder::new_vec(d, data) { Ok(b) => format!("ok:{}", hex(&b)), Err(_) => "E".into() }
                }).unwrap_or("PANIC".into())
            }
            "KB" => {
                // with an argument: the builder is given a target that still holds these octets (a buffer that is reused)
                let stale = f.get(2).map(|h| unhex(h));
                guard(move || match stale {
                    None => format!("ok:{}", hex(&KeepaliveBuilder::new_vec().finish())),
                    Some(v) => format!("ok:{}", hex(&KeepaliveBuilder::from_target(v).unwrap().finish())),
                }).unwrap_or("PANIC".into())
            }
            _ => panic!("bad case line"),
        };
        writeln!(out, "{} {} {}", f[0], f[1], s).unwrap();
    }
    out.flush().unwrap();
}
