use std::panic::{catch_unwind, AssertUnwindSafe};

/// Run `f`, mapping a panic to `None`.
pub fn guard<T>(f: impl FnOnce() -> T) -> Option<T> {
    catch_unwind(AssertUnwindSafe(f)).ok()
}

pub fn hex(b: &[u8]) -> String {
    let mut s = String::with_capacity(b.len() * 2);
    for x in b {
        s.push_str(&format!("{:02x}", x));
    }
    if s.is_empty() { s.push('-'); }
    s
}

pub fn unhex(s: &str) -> Vec<u8> {
    if s == "-" { return Vec::new(); }
    let b = s.as_bytes();
    let mut out = Vec::with_capacity(b.len() / 2);
    let mut i = 0;
    while i + 1 < b.len() {
        let h = (b[i] as char).to_digit(16).unwrap();
        let l = (b[i + 1] as char).to_digit(16).unwrap();
        out.push((h * 16 + l) as u8);
        i += 2;
    }
    out
}

/// splitmix64, the single PRNG used by every generator on the Rust side.
pub struct Rng(pub u64);
impl Rng {
    pub fn next(&mut self) -> u64 {
        self.0 = self.0.wrapping_add(0x9E3779B97F4A7C15);
        let mut z = self.0;
        z = (z ^ (z >> 30)).wrapping_mul(0xBF58476D1CE4E5B9);
        z = (z ^ (z >> 27)).wrapping_mul(0x94D049BB133111EB);
        z ^ (z >> 31)
    }
    pub fn below(&mut self, n: u64) -> u64 { if n == 0 { 0 } else { self.next() % n } }
}

pub fn read_lines(path: &str) -> Vec<String> {
    std::fs::read_to_string(path)
        .unwrap_or_else(|e| { eprintln!("cannot read {path}: {e}"); std::process::exit(2) })
        .lines().map(|l| l.to_string()).collect()
}
