// C19: communities through every representation on the real crate.
//
//   observe c19 obs <cases>     -> one canonical line per case (diffed with the model)
//   observe c19 sweep <lo> <hi> -> the standard-community part of the property itself for every u32 in [lo, hi)
//                                  (raw identity, text round trip, partition, accessors); prints violations and a count
//
// cases:  R <hex>   a raw value of 4 / 8 / 12 / 20 octets
//         S <hex>   a text (ASCII), hex-encoded
use std::io::Write;
use std::str::FromStr;

use routecore::bgp::communities::{
    Community, ExtendedCommunity, Ipv6ExtendedCommunity, LargeCommunity, StandardCommunity, Wellknown,
};

use crate::util::{guard, hex, read_lines, unhex};

fn comm_s(c: &Community) -> String {
    match c {
        Community::Standard(x) => format!("std:{}", hex(&x.to_raw())),
        Community::Extended(x) => format!("ext:{}", hex(&x.to_raw())),
        Community::Ipv6Extended(x) => format!("v6:{}", hex(&x.to_raw())),
        Community::Large(x) => format!("large:{}", hex(&x.to_raw())),
    }
}

fn parse_comm(s: &str) -> String {
    match guard(|| Community::from_str(s)) {
        None => "PANIC".into(),
        Some(Ok(c)) => comm_s(&c),
        Some(Err(_)) => "ERR".into(),
    }
}

fn opt<T: std::fmt::Display>(o: Option<T>) -> String {
    match o { Some(v) => format!("{v}"), None => "-".into() }
}

fn b(x: bool) -> u8 { x as u8 }

fn raw_case(raw: &[u8]) -> String {
    match raw.len() {
        4 => {
            let a: [u8; 4] = raw.try_into().unwrap();
            let c = StandardCommunity::from_raw(a);
            let cc: Community = a.into();
            let text = c.to_string();
            let text2 = cc.to_string();
            let back = match StandardCommunity::from_str(&text) { Ok(x) => hex(&x.to_raw()), Err(_) => "ERR".into() };
            format!("std raw={} raw2={} disp={} same={} parse={} comm={} wk={} res={} priv={} towk={} asn={} tag={} casn={} u32={}",
                hex(&c.to_raw()), hex(cc.as_ref()), hex(text.as_bytes()), b(text == text2), back, parse_comm(&text),
                b(c.is_wellknown()), b(c.is_reserved()), b(c.is_private()),
                opt(c.to_wellknown().map(|w| w.to_u32())),
                opt(c.asn().map(|x| x.into_u32())), opt(c.tag().map(|t| t.value())),
                opt(cc.asn().map(|x| x.into_u32())), c.to_u32())
        }
        8 => {
            let a: [u8; 8] = raw.try_into().unwrap();
            let c = ExtendedCommunity::from_raw(a);
            let cc: Community = a.into();
            let text = c.to_string();
            let text2 = cc.to_string();
            let back = match ExtendedCommunity::from_str(&text) { Ok(x) => hex(&x.to_raw()), Err(_) => "ERR".into() };
            let (t, s) = c.types();
            format!("ext raw={} raw2={} disp={} same={} parse={} comm={} type={:?} sub={:?} trans={} as2={} as4={} ip4={} an2={} an4={} casn={}",
                hex(&c.to_raw()), hex(cc.as_ref()), hex(text.as_bytes()), b(text == text2), back, parse_comm(&text),
                t, s, b(c.is_transitive()),
                opt(c.as2().map(|x| x.to_u16())), opt(c.as4().map(|x| x.into_u32())),
                opt(c.ip4().map(|x| hex(&x.octets()))), opt(c.an2()), opt(c.an4()),
                opt(cc.asn().map(|x| x.into_u32())))
        }
        12 => {
            let a: [u8; 12] = raw.try_into().unwrap();
            let c = LargeCommunity::from_raw(a);
            let cc: Community = a.into();
            let text = c.to_string();
            let text2 = cc.to_string();
            let back = match LargeCommunity::from_str(&text) { Ok(x) => hex(&x.to_raw()), Err(_) => "ERR".into() };
            format!("large raw={} raw2={} disp={} same={} parse={} comm={} g={} l1={} l2={} casn={}",
                hex(&c.to_raw()), hex(cc.as_ref()), hex(text.as_bytes()), b(text == text2), back, parse_comm(&text),
                c.global(), c.local1(), c.local2(), opt(cc.asn().map(|x| x.into_u32())))
        }
        20 => {
            let a: [u8; 20] = raw.try_into().unwrap();
            let c = Ipv6ExtendedCommunity::from_raw(a);
            let cc: Community = a.into();
            let text = c.to_string();
            let text2 = cc.to_string();
            // the "rt:<ipv6>:<n>" form of [0x00, 0x02, ..] is outside the model
            let modelled = !(a[0] == 0 && a[1] == 2);
            let back = match Ipv6ExtendedCommunity::from_str(&text) { Ok(x) => hex(&x.to_raw()), Err(_) => "ERR".into() };
            format!("v6 raw={} raw2={} disp={} same={} parse={} comm={} trans={} an2={} casn={}",
                hex(&c.to_raw()), hex(cc.as_ref()),
                if modelled { hex(text.as_bytes()) } else { "?".into() }, b(text == text2),
                if modelled { back } else { "?".into() },
                if modelled { parse_comm(&text) } else { "?".into() },
                b(c.is_transitive()), c.an2(), opt(cc.asn().map(|x| x.into_u32())))
        }
        n => format!("badlen {n}"),
    }
}

fn text_case(t: &[u8]) -> String {
    let s = match std::str::from_utf8(t) { Ok(s) => s, Err(_) => return "notutf8".into() };
    fn r<T, E>(x: Option<Result<T, E>>, f: impl Fn(&T) -> String) -> String {
        match x { None => "PANIC".into(), Some(Ok(v)) => f(&v), Some(Err(_)) => "ERR".into() }
    }
    format!("wk={} std={} large={} ext={} v6={} comm={}",
        r(guard(|| Wellknown::from_str(s)), |w| format!("{}", w.to_u32())),
        r(guard(|| StandardCommunity::from_str(s)), |c| hex(&c.to_raw())),
        r(guard(|| LargeCommunity::from_str(s)), |c| hex(&c.to_raw())),
        r(guard(|| ExtendedCommunity::from_str(s)), |c| hex(&c.to_raw())),
        r(guard(|| Ipv6ExtendedCommunity::from_str(s)), |c| hex(&c.to_raw())),
        parse_comm(s))
}

fn sweep(lo: u64, hi: u64) {
    let out = std::io::stdout();
    let mut out = out.lock();
    let mut bad = 0u64;
    let (mut nwk, mut nres, mut npriv) = (0u64, 0u64, 0u64);
    for n in lo..hi {
        let n = n as u32;
        let raw = n.to_be_bytes();
        let c = StandardCommunity::from_raw(raw);
        let mut why: Vec<&str> = vec![];
        if c.to_raw() != raw || c.to_u32() != n || StandardCommunity::from_u32(n) != c { why.push("raw"); }
        let text = c.to_string();
        match StandardCommunity::from_str(&text) { Ok(x) if x == c => {}, _ => why.push("text") }
        match Community::from_str(&text) { Ok(Community::Standard(x)) if x == c => {}, _ => why.push("community-text") }
        let (w, r, p) = (c.is_wellknown(), c.is_reserved(), c.is_private());
        if (w as u8) + (r as u8) + (p as u8) != 1 { why.push("partition"); }
        if w != (n >> 16 == 0xffff) || r != (n >> 16 == 0) { why.push("class"); }
        nwk += w as u64; nres += r as u64; npriv += p as u64;
        if w {
            if c.asn().is_some() || c.tag().is_some() { why.push("accessors-wk"); }
            match c.to_wellknown() { Some(k) if k.to_u32() == n => {}, _ => why.push("to_wellknown") }
        } else {
            if c.to_wellknown().is_some() { why.push("to_wellknown-nonwk"); }
            match (c.asn(), c.tag()) {
                (Some(a), Some(t)) if a.into_u32() == n >> 16 && t.value() as u32 == n & 0xffff => {}
                _ => why.push("accessors"),
            }
        }
        if !why.is_empty() {
            bad += 1;
            if bad <= 20 { writeln!(out, "SWEEPBAD {:08x} {} text={}", n, why.join(","), hex(text.as_bytes())).unwrap(); }
        }
    }
    writeln!(out, "SWEEP {lo} {hi} bad={bad} wk={nwk} res={nres} priv={npriv}").unwrap();
}

pub fn run(args: &[String]) {
    match args.first().map(|s| s.as_str()) {
        Some("obs") => {
            let out = std::io::stdout();
            let mut out = out.lock();
            for l in read_lines(&args[1]) {
                let mut it = l.split_whitespace();
                let (k, h) = match (it.next(), it.next()) { (Some(k), Some(h)) => (k, h), _ => continue };
                let bytes = unhex(h);
                let r = match k {
                    "R" => guard(|| raw_case(&bytes)).unwrap_or_else(|| "PANIC".into()),
                    "S" => guard(|| text_case(&bytes)).unwrap_or_else(|| "PANIC".into()),
                    _ => continue,
                };
                writeln!(out, "{k} {h} {r}").unwrap();
            }
        }
        Some("sweep") => {
            let lo: u64 = args[1].parse().unwrap();
            let hi: u64 = args[2].parse().unwrap();
            sweep(lo, hi);
        }
        _ => { eprintln!("usage: observe c19 obs <cases> | sweep <lo> <hi>"); std::process::exit(2) }
    }
}
