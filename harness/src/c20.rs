// C20: the session Timer under tokio's paused clock (current-thread runtime).
//
//   observe c20 obs <cases>
//
// case:  TMR <interval secs> <op,op,...>     ops: s start, r reset, x stop, a<ms> advance the clock, w<ms> await a tick with
//                                            that timeout
// output: the case followed by one token per op:  s1 / r1 / x0 (is_running after the call), a,  T@<now>/<instant> (a tick was
//         observed at <now>; the Instant it carries) or O@<now> (timeout); times in ms since the start of the case.
// After every call on the handle and every advance the spawned timer task is given the chance to run (yield_now), which is the
// "controlled clock" of the property: the task reacts to a command before time moves on.
use std::io::Write;
use std::time::Duration;

use routecore::bgp::fsm::verif::Timer;
use tokio::time::Instant;

use crate::util::{guard, read_lines};

fn futures_noop_waker() -> std::task::Waker {
    use std::task::{RawWaker, RawWakerVTable, Waker};
    fn clone(_: *const ()) -> RawWaker { RawWaker::new(std::ptr::null(), &VT) }
    fn noop(_: *const ()) {}
    static VT: RawWakerVTable = RawWakerVTable::new(clone, noop, noop, noop);
    unsafe { Waker::from_raw(RawWaker::new(std::ptr::null(), &VT)) }
}

async fn settle() {
    for _ in 0..8 {
        tokio::task::yield_now().await;
    }
}

async fn run_case(secs: u64, ops: &[String]) -> String {
    let t0 = Instant::now();
    let ms = |i: Instant| i.duration_since(t0).as_millis();
    let mut t = Timer::new(secs);
    let mut out: Vec<String> = Vec::new();
    for op in ops {
        let (k, arg) = op.split_at(1);
        match k {
            // S / R / X: the command without giving the timer task a turn before the next command (commands issued back to back by
            // the session, with no await in between); only used directly in front of another command
            "S" => { t.start(); out.push(format!("s{}", t.is_running() as u8)); }
            "R" => { t.reset(); out.push(format!("r{}", t.is_running() as u8)); }
            "X" => { t.stop_and_reset(); out.push(format!("x{}", t.is_running() as u8)); }
            "s" => { t.start(); settle().await; out.push(format!("s{}", t.is_running() as u8)); }
            "r" => { t.reset(); settle().await; out.push(format!("r{}", t.is_running() as u8)); }
            "x" => { t.stop_and_reset(); settle().await; out.push(format!("x{}", t.is_running() as u8)); }
            "A" => {
                // the clock moves on while no task gets a turn (synchronous work between two commands): tokio's advance() moves
                // the paused clock on its first poll and only then yields - it is polled once, by hand, and dropped
                use std::future::Future;
                let d: u64 = arg.parse().unwrap();
                let mut f = Box::pin(tokio::time::advance(Duration::from_millis(d)));
                let w = futures_noop_waker();
                let _ = f.as_mut().poll(&mut std::task::Context::from_waker(&w));
                drop(f);
                out.push("a".into());
            }
            "a" => {
                let d: u64 = arg.parse().unwrap();
                tokio::time::advance(Duration::from_millis(d)).await;
                settle().await;
                out.push("a".into());
            }
            "w" => {
                let d: u64 = arg.parse().unwrap();
                match tokio::time::timeout(Duration::from_millis(d), t.tick()).await {
                    Ok(i) => out.push(format!("T@{}/{}", ms(Instant::now()), ms(i))),
                    Err(_) => out.push(format!("O@{}", ms(Instant::now()))),
                }
                settle().await;
            }
            _ => out.push("?".into()),
        }
    }
    out.join(" ")
}

pub fn run(args: &[String]) {
    match args.first().map(|s| s.as_str()) {
        Some("obs") => {
            let out = std::io::stdout();
            let mut out = out.lock();
            let mut hangs = 0;
            for l in read_lines(&args[1]) {
                let p: Vec<&str> = l.split_whitespace().collect();
                if p.len() != 3 || p[0] != "TMR" { continue; }
                let secs: u64 = p[1].parse().unwrap();
                let ops: Vec<String> = p[2].split(',').map(|s| s.to_string()).collect();
                // every case on a thread of its own with a wall-clock limit: a timer task that spins (it never yields, so the paused
                // clock and the case's own timeouts cannot end it) is an observation - HANG - and not the end of the run.  The
                // spinning thread cannot be stopped; after three of them the rest of the file is reported as SKIPPED.
                if hangs >= 3 { writeln!(out, "{l} | SKIPPED").unwrap(); continue; }
                let (tx, rx) = std::sync::mpsc::channel();
                std::thread::spawn(move || {
                    let r = guard(|| {
                        let rt = tokio::runtime::Builder::new_current_thread().enable_time().start_paused(true).build().unwrap();
                        rt.block_on(run_case(secs, &ops))
                    }).unwrap_or_else(|| "PANIC".into());
                    let _ = tx.send(r);
                });
                let r = match rx.recv_timeout(Duration::from_secs(30)) { Ok(r) => r, Err(_) => { hangs += 1; "HANG".into() } };
                writeln!(out, "{l} | {r}").unwrap();
            }
            out.flush().unwrap();
            if hangs > 0 { std::process::exit(0); }
        }
        _ => { eprintln!("usage: observe c20 obs <cases>"); std::process::exit(2) }
    }
}
