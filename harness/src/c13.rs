// C13: AS path conversions on the real crate.
//
// case lines:
//   HOPS <id> <hop tokens joined by ;>      tokens: a<asn> | S<1|3|4>:<asn,asn,...>  (built through the public API)
//   WIRE <id> <four 0|1> <hex> <prepend asn> <prepend n>
//   EQ   <id> <hex 2-octet path> <hex 4-octet path>
use std::hash::Hash;
use std::io::Write;
use inetnum::asn::Asn;
use routecore::bgp::aspath::{AsPath, HopPath};
use crate::c05::Rec;
use crate::util::{guard, hex, unhex};

fn build(tokens: &str) -> HopPath {
    let mut hp = HopPath::new();
    if tokens == "-" { return hp; }
    for t in tokens.split(';') {
        if let Some(a) = t.strip_prefix('a') { hp.append(Asn::from_u32(a.parse().unwrap())); }
        else {
            let (ty, list) = t[1..].split_once(':').unwrap();
            let asns: Vec<Asn> = list.split(',').filter(|x| !x.is_empty()).map(|x| Asn::from_u32(x.parse().unwrap())).collect();
            match ty { "1" => hp.append_set(asns), "3" => hp.append_confed_sequence(asns), "4" => hp.append_confed_set(asns), _ => panic!("type") }
        }
    }
    hp
}

fn hops_desc<O: octseq::Octets>(p: &AsPath<O>) -> String {
    let v: Vec<String> = p.hops().map(|h| format!("{}", h).replace(' ', "")).collect();
    if v.is_empty() { "-".into() } else { v.join("|") }
}

fn seg_counts<O: octseq::Octets>(p: &AsPath<O>) -> String {
    let v: Vec<String> = p.segments().map(|s| s.asn_count().to_string()).collect();
    if v.is_empty() { "-".into() } else { v.join(",") }
}

pub fn run(args: &[String]) {
    let stdout = std::io::stdout();
    let mut out = std::io::BufWriter::new(stdout.lock());
    for l in crate::util::read_lines(&args[0]) {
        let f: Vec<&str> = l.split_whitespace().collect();
        if f.is_empty() { continue; }
        match f[0] {
            "HOPS" => {
                let hp = build(f[2]);
                let hc = hp.hop_count();
                let hcps = hp.hop_count_path_selection();
                let w = guard(|| hp.to_as_path::<Vec<u8>>().unwrap());
                let wire = match &w {
                    None => "wire=PANIC".to_string(),
                    Some(p) => {
                        // what is read back from the composed octets runs under its own guard: a composer that writes a malformed
                        // path makes segments() / hops() panic ("illegally encoded AS path"), and that is an observation, not a crash
                        let raw = p.clone().into_inner();
                        let valid = guard(|| AsPath::new(raw.clone(), true).is_ok());
                        let rest = guard(|| format!("counts={} hops={} back={}", seg_counts(p), hops_desc(p), (p.to_hop_path() == hp) as u8));
                        format!("wire={} valid={} {}", hex(&raw), valid.map(|v| (v as u8).to_string()).unwrap_or("PANIC".into()),
                            rest.unwrap_or("readback=PANIC".into()))
                    }
                };
                let w16 = guard(|| hp.try_to_asn16_path::<Vec<u8>>());
                let s16 = match w16 { None => "PANIC".to_string(), Some(Err(_)) => "E".to_string(), Some(Ok(p)) => hex(&p.into_inner()) };
                writeln!(out, "HOPS {} hc={hc} hcps={hcps} {wire} w16={s16}", f[1]).unwrap();
            }
            "WIRE" => {
                let four = f[2] == "1";
                let raw = unhex(f[3]);
                let asn = Asn::from_u32(f[4].parse().unwrap());
                let n: usize = f[5].parse().unwrap();
                match guard(|| AsPath::new(raw.clone(), four)) {
                    None => writeln!(out, "WIRE {} PANIC", f[1]).unwrap(),
                    Some(Err(_)) => writeln!(out, "WIRE {} E", f[1]).unwrap(),
                    Some(Ok(p)) => {
                        let r = guard(|| {
                            let hp = p.to_hop_path();
                            let back = hp.to_as_path::<Vec<u8>>().unwrap();
                            let pre = p.prepend(asn, n).unwrap();
                            // and back to the two-octet form: the segments of a path that came off the wire keep their own octets
                            let w16 = match hp.try_to_asn16_path::<Vec<u8>>() { Ok(p16) => hex(&p16.into_inner()), Err(_) => "E".to_string() };
                            format!("hops={} back={} backhops={} pre={} w16={}", hops_desc(&p), hex(&back.clone().into_inner()),
                                hops_desc(&back), hops_desc(&pre), w16)
                        });
                        writeln!(out, "WIRE {} {}", f[1], r.unwrap_or("PANIC".into())).unwrap();
                    }
                }
            }
            "EQ" => {
                let a = AsPath::new(unhex(f[2]), false);
                let b = AsPath::new(unhex(f[3]), true);
                match (a, b) {
                    (Ok(a), Ok(b)) => {
                        let r = guard(|| {
                            let mut ha = Rec::default(); a.hash(&mut ha);
                            let mut hb = Rec::default(); b.hash(&mut hb);
                            format!("eq={} eqr={} hasheq={} h={}", (a == b) as u8, (b == a) as u8, (ha.0 == hb.0) as u8, hex(&ha.0))
                        });
                        writeln!(out, "EQ {} {}", f[1], r.unwrap_or("PANIC".into())).unwrap();
                    }
                    _ => writeln!(out, "EQ {} E", f[1]).unwrap(),
                }
            }
            _ => {}
        }
    }
    out.flush().unwrap();
}
