// C10 / C11: route preference and best/backup selection on the real crate.
//
// case lines:
//   PAIR <id> <R|S> <route> | <route>
//   LIST <id> <R|S> <route> | <route> | ...
// route = dop ibgp local_asn bgp_id peer origin path local_pref med originator cluster_len rest
//         ("-" = absent; peer = 4:<u32> or 6:<u128>; path = "-" absent, "e" empty, or tokens a<asn> / s (AS_SET) / o (AS_CONFED_SEQUENCE) / c (AS_CONFED_SET) joined by '.')
use std::borrow::Borrow;
use std::cmp::Ordering;
use std::io::Write;
use std::net::{IpAddr, Ipv4Addr, Ipv6Addr};

use inetnum::asn::Asn;
use octseq::Parser;
use routecore::bgp::aspath::HopPath;
use routecore::bgp::message::PduParseInfo;
use routecore::bgp::path_attributes::{Attribute, ClusterIds, PaMap};
use routecore::bgp::path_selection::{
    best, best_backup, best_backup_generic, best_backup_position, DegreeOfPreference, OrdRoute, OrdStrat,
    Rfc4271, RouteSource, SkipMed, TiebreakerInfo,
};
use routecore::bgp::types::{LocalPref, MultiExitDisc, Origin, OriginType, OriginatorId, Otc};

use crate::util::guard;

pub struct R {
    pub pa: PaMap,
    pub tb: TiebreakerInfo,
}

fn opt(s: &str) -> Option<u64> { if s == "-" { None } else { Some(s.parse().unwrap()) } }

pub fn parse_route(s: &str) -> R {
    let f: Vec<&str> = s.split_whitespace().collect();
    assert!(f.len() == 12, "route fields: {s}");
    let dop = opt(f[0]).map(|d| DegreeOfPreference(d as u32));
    let source = if f[1] == "1" { RouteSource::Ibgp } else { RouteSource::Ebgp };
    let local_asn = Asn::from_u32(f[2].parse().unwrap());
    let bgp_id: [u8; 4] = (f[3].parse::<u32>().unwrap()).to_be_bytes();
    let peer = if let Some(v) = f[4].strip_prefix("4:") {
        IpAddr::V4(Ipv4Addr::from(v.parse::<u32>().unwrap()))
    } else {
        IpAddr::V6(Ipv6Addr::from(f[4][2..].parse::<u128>().unwrap()))
    };
    let mut pa = PaMap::empty();
    if let Some(o) = opt(f[5]) { pa.set(Origin(OriginType::from(o as u8))); }
    if f[6] != "-" {
        let mut hp = HopPath::new();
        if f[6] != "e" {
            for t in f[6].split('.') {
                if let Some(a) = t.strip_prefix('a') { hp.append(Asn::from_u32(a.parse().unwrap())); }
                else if t == "s" { hp.append_set([Asn::from_u32(64496), Asn::from_u32(64497)]); }
                else if t == "c" { hp.append_confed_set([Asn::from_u32(64499), Asn::from_u32(64500)]); }
                else { hp.append_confed_sequence([Asn::from_u32(64498)]); }
            }
        }
        pa.set(hp);
    }
    if let Some(v) = opt(f[7]) { pa.set(LocalPref(v as u32)); }
    if let Some(v) = opt(f[8]) { pa.set(MultiExitDisc(v as u32)); }
    if let Some(v) = opt(f[9]) { pa.set(OriginatorId(Ipv4Addr::from(v as u32))); }
    if let Some(n) = opt(f[10]) {
        let mut raw = vec![];
        for i in 0..n { raw.extend_from_slice(&(0x0a000000u32 + i as u32).to_be_bytes()); }
        let c = ClusterIds::parse(&mut Parser::from_ref(&raw), PduParseInfo::modern()).unwrap();
        pa.set(c);
    }
    let rest: u32 = f[11].parse().unwrap();
    if rest > 0 { pa.set(Otc(Asn::from_u32(rest))); }
    R { pa, tb: TiebreakerInfo::new(source, dop, local_asn, bgp_id.into(), peer) }
}

fn ord_s(o: Ordering) -> &'static str { match o { Ordering::Less => "Lt", Ordering::Equal => "Eq", Ordering::Greater => "Gt" } }

// Every comparison and selection is made twice: with one PaMap object per route, and with routes of equal attributes borrowing
// one and the same PaMap (a RIB that shares attribute maps between sessions).  The two must agree; if they do not, both are shown.
fn both(own: String, shared: String) -> String { if own == shared { own } else { format!("{own} !shared-pamap: {shared}") } }

fn pair<OS: OrdStrat>(a: &R, b: &R) -> String {
    both(pair_with::<OS>(a, b, false), pair_with::<OS>(a, b, true))
}

fn pair_with<OS: OrdStrat>(a: &R, b: &R, share: bool) -> String {
    let ra = OrdRoute::<OS>::try_new(&a.pa, a.tb);
    let rb = OrdRoute::<OS>::try_new(if share && a.pa == b.pa { &a.pa } else { &b.pa }, b.tb);
    let e = format!("elig={}{}", ra.is_ok() as u8, rb.is_ok() as u8);
    match (ra, rb) {
        (Ok(x), Ok(y)) => {
            let c = guard(|| x.cmp(&y));
            let q = guard(|| x == y);
            // PartialOrd (what `<` uses) is the same order as Ord
            if let (Some(c), Some(pc)) = (c, guard(|| x.partial_cmp(&y))) {
                if pc != Some(c) { return format!("{e} cmp={} !partial_cmp={:?}", ord_s(c), pc); }
            }
            format!("{e} cmp={} eq={}", c.map(ord_s).unwrap_or("PANIC"),
                    q.map(|b| if b { "1" } else { "0" }).unwrap_or("PANIC"))
        }
        _ => format!("{e} cmp=NA eq=NA"),
    }
}

// an OrdRoute with its position, ordered by the OrdRoute alone
struct Ix<'a, OS>(usize, OrdRoute<'a, OS>);
impl<'a, OS: OrdStrat> PartialEq for Ix<'a, OS> { fn eq(&self, o: &Self) -> bool { self.1 == o.1 } }
impl<'a, OS: OrdStrat> Eq for Ix<'a, OS> {}
// (`<` on the wrapper goes through OrdRoute's own partial_cmp, as `<` on an OrdRoute does)
impl<'a, OS: OrdStrat> PartialOrd for Ix<'a, OS> { fn partial_cmp(&self, o: &Self) -> Option<Ordering> { self.1.partial_cmp(&o.1) } }
impl<'a, OS: OrdStrat> Ord for Ix<'a, OS> { fn cmp(&self, o: &Self) -> Ordering { self.1.cmp(&o.1) } }
impl<'a, OS: OrdStrat> Borrow<OrdRoute<'a, OS>> for Ix<'a, OS> { fn borrow(&self) -> &OrdRoute<'a, OS> { &self.1 } }

fn ix(o: Option<usize>) -> String { o.map(|i| i.to_string()).unwrap_or("-".into()) }

fn list<OS: OrdStrat + Copy>(rs: &[R]) -> String {
    both(list_with::<OS>(rs, false), list_with::<OS>(rs, true))
}

fn list_with<OS: OrdStrat + Copy>(rs: &[R], share: bool) -> String {
    let mut ords = vec![];
    for (k, r) in rs.iter().enumerate() {
        let pa = if share { rs[..k].iter().find(|e| e.pa == r.pa).map(|e| &e.pa).unwrap_or(&r.pa) } else { &r.pa };
        match OrdRoute::<OS>::try_new(pa, r.tb) { Ok(o) => ords.push(o), Err(_) => return "INELIGIBLE".into() }
    }
    let mk = || ords.iter().enumerate().map(|(i, o)| Ix(i, *o));
    let b = guard(|| best(mk()).map(|x| x.0));
    let bb = guard(|| { let (x, y) = best_backup(mk()); (x.map(|t| t.0), y.map(|t| t.0)) });
    let pos = guard(|| best_backup_position(mk()));
    // the same candidates through an iterator that does not know its length (filter): the selection may not depend on that
    let mkf = || ords.iter().enumerate().map(|(i, o)| Ix(i, *o)).filter(|_| true);
    let bbf = guard(|| { let (x, y) = best_backup(mkf()); (x.map(|t| t.0), y.map(|t| t.0)) });
    let posf = guard(|| best_backup_position(mkf()));
    if bbf != bb || posf != pos {
        let p2 = |v: Option<(Option<usize>, Option<usize>)>| v.map(|(x, y)| format!("{},{}", ix(x), ix(y))).unwrap_or("PANIC".into());
        return format!("!iterator-kind: bb={} / {} pos={} / {}", p2(bb), p2(bbf), p2(pos), p2(posf));
    }
    let gen = guard(|| { let (x, y) = best_backup_generic(mk()); (x.map(|t| t.0), y.map(|t| t.0)) });
    let p2 = |v: Option<(Option<usize>, Option<usize>)>| v.map(|(x, y)| format!("{},{}", ix(x), ix(y))).unwrap_or("PANIC".into());
    format!("best={} bb={} pos={} gen={}", b.map(ix).unwrap_or("PANIC".into()), p2(bb), p2(pos), p2(gen))
}

pub fn run(args: &[String]) {
    let stdout = std::io::stdout();
    let mut out = std::io::BufWriter::new(stdout.lock());
    for l in crate::util::read_lines(&args[0]) {
        let mut it = l.splitn(4, ' ');
        let kind = it.next().unwrap_or("");
        let id = it.next().unwrap_or("");
        let strat = it.next().unwrap_or("");
        let rest = it.next().unwrap_or("");
        let routes: Vec<R> = rest.split('|').map(|s| s.trim()).filter(|s| !s.is_empty()).map(parse_route).collect();
        match kind {
            "PAIR" => {
                let s = if strat == "R" { pair::<Rfc4271>(&routes[0], &routes[1]) } else { pair::<SkipMed>(&routes[0], &routes[1]) };
                writeln!(out, "PAIR {id} {s}").unwrap();
            }
            "LIST" => {
                let s = if strat == "R" { list::<Rfc4271>(&routes) } else { list::<SkipMed>(&routes) };
                writeln!(out, "LIST {id} {s}").unwrap();
            }
            _ => {}
        }
    }
    out.flush().unwrap();
}
