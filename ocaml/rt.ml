(* Glue between OCaml values and the extracted Coq datatypes (trusted for the
   correspondence only). *)
open Model

let rec pos_of_int (i : int) : positive =
  if i = 1 then XH
  else if i land 1 = 0 then XO (pos_of_int (i lsr 1))
  else XI (pos_of_int (i lsr 1))

let n_of_int (i : int) : n = if i = 0 then N0 else Npos (pos_of_int i)

let rec int_of_pos (p : positive) : int =
  match p with XH -> 1 | XO q -> 2 * int_of_pos q | XI q -> 2 * int_of_pos q + 1

let int_of_n (x : n) : int = match x with N0 -> 0 | Npos p -> int_of_pos p

(* arbitrary-size N as a decimal string (values may exceed 63 bits: u64, u128) *)

let char_of_ascii (a : ascii) : char =
  match a with
  | Ascii (b0, b1, b2, b3, b4, b5, b6, b7) ->
    let v b k = if b then 1 lsl k else 0 in
    Char.chr (v b0 0 + v b1 1 + v b2 2 + v b3 3 + v b4 4 + v b5 5 + v b6 6 + v b7 7)

let ascii_of_char (c : char) : ascii =
  let i = Char.code c in
  let b k = (i lsr k) land 1 = 1 in
  Ascii (b 0, b 1, b 2, b 3, b 4, b 5, b 6, b 7)

let rec str_of_coq (s : Model.string) : String.t =
  match s with
  | EmptyString -> ""
  | String (a, tl) -> String.make 1 (char_of_ascii a) ^ str_of_coq tl

let coq_of_str (s : String.t) : Model.string =
  let r = ref EmptyString in
  for i = String.length s - 1 downto 0 do
    r := String (ascii_of_char s.[i], !r)
  done;
  !r

let hex_of_bytes (l : n list) : String.t =
  if l = [] then "-" else
  String.concat "" (List.map (fun b -> Printf.sprintf "%02x" (int_of_n b)) l)

let bytes_of_hex (s : String.t) : n list =
  if s = "-" then [] else begin
    let r = ref [] in
    let len = String.length s / 2 in
    for i = len - 1 downto 0 do
      r := n_of_int (int_of_string ("0x" ^ String.sub s (2 * i) 2)) :: !r
    done;
    !r
  end

let read_lines (path : String.t) : String.t list =
  let ic = open_in path in
  let r = ref [] in
  (try
     while true do
       r := input_line ic :: !r
     done
   with End_of_file -> close_in ic);
  List.rev !r

let split_ws (s : String.t) : String.t list =
  List.filter (fun x -> x <> "") (String.split_on_char ' ' s)
