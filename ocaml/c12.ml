(* Model-side observations for C12 (same lines as harness/src/c12.rs) *)
open Model
open Rt

let dirnum = function None -> 0 | Some d -> int_of_n d

let describe (sc : sconfig) probes : String.t =
  let parts = List.map (fun (a, s) ->
      let f = (n_of_int a, n_of_int s) in
      Printf.sprintf "%d.%d:%d%s" a s (dirnum (get_addpath sc f)) (if rx_addpath sc f then "r" else "-")) probes in
  Printf.sprintf "four=%d fams=%s" (if sc.sc_four then 1 else 0) (String.concat "," parts)

let run (args : String.t list) =
  match args with
  | [file] ->
    List.iter (fun l ->
        match split_ws l with
        | id :: lh :: ph :: legacy :: probes :: _ ->
          let probes = List.map (fun p ->
              match String.split_on_char '.' p with
              | [a; s] -> (int_of_string a, int_of_string s)
              | _ -> failwith "probe") (List.filter (fun x -> x <> "") (String.split_on_char ',' probes)) in
          let legacy = legacy = "1" in
          (match open_caps (bytes_of_hex lh), open_caps (bytes_of_hex ph) with
           | Ok sent, Ok rcvd ->
             let isect = addpath_intersection sent rcvd in
             let raw = List.map (fun ((a, s), d) -> Printf.sprintf "%d.%d:%d" (int_of_n a) (int_of_n s) (int_of_n d)) isect in
             let sc = session_config sent rcvd in
             Printf.printf "C12 %s helper isect=%s %s\n" id (if raw = [] then "-" else String.concat "," raw) (describe sc probes);
             Printf.printf "C12 %s bmp %s\n" id (describe sc probes);
             let (pph, inc) = pph_session_config legacy sent rcvd in
             Printf.printf "C12 %s pph incons=%d %s\n" id (if inc then 1 else 0) (describe pph probes)
           | _, _ ->
             Printf.printf "C12 %s helper E\nC12 %s bmp E\nC12 %s pph E\n" id id id)
        | _ -> ()) (read_lines file)
  | _ -> prerr_endline "usage: model c12 <cases>"; exit 2
