let () =
  match Array.to_list Sys.argv with
  | _ :: "c18" :: rest -> C18.run rest
  | _ :: "c12" :: rest -> C12.run rest
  | _ :: ("c10" | "c11") :: rest -> C10.run rest
  | _ :: ("c05" | "c14") :: rest -> C05.run rest
  | _ :: "c13" :: rest -> C13.run rest
  | _ :: "c04" :: rest -> C04.run rest
  | _ :: ("c01" | "c02") :: rest -> C01.run rest
  | _ :: ("c06" | "c07") :: rest -> C06.run rest
  | _ :: "c17" :: rest -> C17.run rest
  | _ :: "c03" :: rest -> C03.run rest
  | _ :: ("c08" | "c09") :: rest -> C08.run rest
  | _ :: "c15" :: rest -> C15.run rest
  | _ :: "c16" :: rest -> C16.run rest
  | _ :: "c19" :: rest -> C19.run rest
  | _ :: "c20" :: rest -> C20.run rest
  | _ -> prerr_endline "usage: model <property> ..."; exit 2
