(* Model-side observations for C19 (same lines as harness/src/c19.rs) *)
open Model
open Rt

let rec nat_of_int i = if i <= 0 then O else S (nat_of_int (i - 1))
let opt_n = function Some v -> string_of_int (int_of_n v) | None -> "-"
let b x = if x then "1" else "0"
let optb = function Some v -> hex_of_bytes v | None -> "ERR"

let comm_s (c : community) : String.t =
  match c with
  | CStandard r -> "std:" ^ hex_of_bytes r
  | CExtended r -> "ext:" ^ hex_of_bytes r
  | CV6Extended r -> "v6:" ^ hex_of_bytes r
  | CLarge r -> "large:" ^ hex_of_bytes r

let parse_comm s = match comm_from_str s with Some c -> comm_s c | None -> "ERR"

let ty_s = function
  | TransitiveTwoOctetSpecific -> "TransitiveTwoOctetSpecific"
  | TransitiveIp4Specific -> "TransitiveIp4Specific"
  | TransitiveFourOctetSpecific -> "TransitiveFourOctetSpecific"
  | TransitiveOpaque -> "TransitiveOpaque"
  | NonTransitiveTwoOctetSpecific -> "NonTransitiveTwoOctetSpecific"
  | NonTransitiveIp4Specific -> "NonTransitiveIp4Specific"
  | NonTransitiveFourOctetSpecific -> "NonTransitiveFourOctetSpecific"
  | NonTransitiveOpaque -> "NonTransitiveOpaque"
  | OtherType x -> Printf.sprintf "OtherType(%d)" (int_of_n x)
let sub_s = function
  | RouteTarget -> "RouteTarget"
  | RouteOrigin -> "RouteOrigin"
  | OtherSubType x -> Printf.sprintf "OtherSubType(%d)" (int_of_n x)

let raw_case (raw : n list) : String.t =
  match comm_from_raw raw with
  | None -> Printf.sprintf "badlen %d" (List.length raw)
  | Some cc ->
    let casn = opt_n (comm_asn cc) in
    let raw2 = hex_of_bytes (comm_raw cc) in
    (match cc with
     | CStandard r ->
       let text = std_display r in
       let same = (match comm_display cc with Some t -> t = text | None -> false) in
       Printf.sprintf "std raw=%s raw2=%s disp=%s same=%s parse=%s comm=%s wk=%s res=%s priv=%s towk=%s asn=%s tag=%s casn=%s u32=%d"
         (hex_of_bytes r) raw2 (hex_of_bytes text) (b same) (optb (std_from_str text)) (parse_comm text)
         (b (std_is_wellknown r)) (b (std_is_reserved r)) (b (std_is_private r))
         (match std_to_wellknown r with Some w -> string_of_int (int_of_n (wk_to_u32 w)) | None -> "-")
         (opt_n (std_asn r)) (opt_n (std_tag r)) casn (int_of_n (unbe r))
     | CExtended r ->
       let text = ext_display r in
       let same = (match comm_display cc with Some t -> t = text | None -> false) in
       let (t, s) = ext_types r in
       Printf.sprintf "ext raw=%s raw2=%s disp=%s same=%s parse=%s comm=%s type=%s sub=%s trans=%s as2=%s as4=%s ip4=%s an2=%s an4=%s casn=%s"
         (hex_of_bytes r) raw2 (hex_of_bytes text) (b same) (optb (ext_from_str text)) (parse_comm text)
         (ty_s t) (sub_s s) (b (ext_is_transitive r))
         (opt_n (ext_as2 r)) (opt_n (ext_as4 r)) (match ext_ip4 r with Some v -> hex_of_bytes v | None -> "-")
         (opt_n (ext_an2 r)) (opt_n (ext_an4 r)) casn
     | CLarge r ->
       let text = large_display r in
       let same = (match comm_display cc with Some t -> t = text | None -> false) in
       Printf.sprintf "large raw=%s raw2=%s disp=%s same=%s parse=%s comm=%s g=%d l1=%d l2=%d casn=%s"
         (hex_of_bytes r) raw2 (hex_of_bytes text) (b same) (optb (large_from_str text)) (parse_comm text)
         (int_of_n (unbe (octs r O (nat_of_int 4)))) (int_of_n (unbe (octs r (nat_of_int 4) (nat_of_int 8))))
         (int_of_n (unbe (octs r (nat_of_int 8) (nat_of_int 12)))) casn
     | CV6Extended r ->
       let disp, back, comm = (match v6_display r with
           | Some text -> hex_of_bytes text, optb (v6_from_str text), parse_comm text
           | None -> "?", "?", "?") in
       Printf.sprintf "v6 raw=%s raw2=%s disp=%s same=1 parse=%s comm=%s trans=%s an2=%d casn=%s"
         (hex_of_bytes r) raw2 disp back comm (b (v6_is_transitive r))
         (int_of_n (unbe (octs r (nat_of_int 18) (nat_of_int 20)))) casn)

let text_case (t : n list) : String.t =
  Printf.sprintf "wk=%s std=%s large=%s ext=%s v6=%s comm=%s"
    (match wk_from_str t with Some w -> string_of_int (int_of_n (wk_to_u32 w)) | None -> "ERR")
    (optb (std_from_str t)) (optb (large_from_str t)) (optb (ext_from_str t)) (optb (v6_from_str t)) (parse_comm t)

let run (args : String.t list) =
  match args with
  | ["obs"; path] ->
    List.iter (fun l ->
        match split_ws l with
        | [k; h] ->
          let bytes = bytes_of_hex h in
          let r = (match k with "R" -> raw_case bytes | "S" -> text_case bytes | _ -> "?") in
          print_endline (Printf.sprintf "%s %s %s" k h r)
        | _ -> ()) (read_lines path)
  | _ -> prerr_endline "usage: model c19 obs <cases>"; exit 2
