(* Model-side observations for C18, same canonical lines as harness/src/c18.rs *)
open Model
open Rt

let variant_string names (v : ev) : String.t =
  match v with
  | Named i -> str_of_coq (List.nth names (int_of_n i))
  | Ranged (i, n) -> Printf.sprintf "%s(%d)" (str_of_coq (List.nth names (int_of_n i))) (int_of_n n)
  | Catch n -> Printf.sprintf "Unimplemented(%d)" (int_of_n n)
  | Reject -> "REJECT"

let as_name (v : asv) : String.t =
  match v with
  | AsNamed i -> str_of_coq (List.nth afisafi_names (int_of_n i))
  | AsUnsupported (a, s) -> Printf.sprintf "Unsupported(%d,%d)" (int_of_n a) (int_of_n s)

let nt_name (v : nlrity) : String.t =
  match v with
  | NtNamed (i, ap) -> str_of_coq (List.nth afisafi_names (int_of_n i)) ^ (if ap then "Addpath" else "")
  | NtUnsupported (a, s) -> Printf.sprintf "Unsupported(%d,%d)" (int_of_n a) (int_of_n s)

let run (args : String.t list) =
  match args with
  | ["obs"; domfile] ->
    List.iter (fun (key, tbl) ->
        let key_s = str_of_coq key in
        let names = List.assoc key all_enum_names in
        let width = int_of_n (List.assoc key all_enum_widths) in
        let bound = 1 lsl width in
        for i = 0 to bound - 1 do
          let v = of_int tbl (n_of_int i) in
          match v with
          | Reject -> ()
          | _ ->
            let back = match to_int tbl v with Some b -> int_of_n b | None -> -1 in
            let s = variant_string names v in
            if s <> Printf.sprintf "Unimplemented(%d)" i || back <> i then
              Printf.printf "ENUM %s %d %s %d\n" key_s i s back
        done;
        Printf.printf "ENUMEND %s %d\n" key_s bound) all_enums;
    List.iter (fun l ->
        match split_ws l with
        | [a; s] ->
          let a = int_of_string a and s = int_of_string s in
          let v = afisafi_of afisafi_table (n_of_int a) (n_of_int s) in
          let (ba, bs) = match afisafi_to afisafi_table v with
            | Some (x, y) -> (int_of_n x, int_of_n y) | None -> (-1, -1) in
          let bytes = match afisafi_bytes afisafi_table v with
            | Some l -> String.concat "," (List.map (fun b -> string_of_int (int_of_n b)) l)
            | None -> "?" in
          let afi_s = variant_string te_afi_names (afisafi_afi afisafi_table te_afi v) in
          let n0 = nlritype_of v false and n1 = nlritype_of v true in
          Printf.printf "AFISAFI %d %d %s back=%d,%d bytes=%s afi=%s nt0=%s nt1=%s ntas0=%s ntas1=%s\n"
            a s (as_name v) ba bs bytes afi_s (nt_name n0) (nt_name n1)
            (as_name (nlritype_afisafi n0)) (as_name (nlritype_afisafi n1))
        | _ -> ()) (read_lines domfile);
    for c = 0 to 255 do
      for s = 0 to 255 do
        match details_of details_error_code details_table (n_of_int c) (n_of_int s) with
        | None -> Printf.printf "DETAILS %d %d NONE\n" c s
        | Some d ->
          let name = match d with
            | DUnimpl (c', s') -> Printf.sprintf "Unimplemented(%d,%d)" (int_of_n c') (int_of_n s')
            | DNamed (i, sub) ->
              let dn = str_of_coq (List.nth details_names (int_of_n i)) in
              (match sub with
               | None -> dn
               | Some v ->
                 let sub_s =
                   match List.assoc_opt i details_sub_keys with
                   | Some k -> variant_string (List.assoc k all_enum_names) v
                   | None -> "?" in
                 Printf.sprintf "%s(%s)" dn sub_s) in
          let raw = match details_raw details_error_code details_table d with
            | Some [x; y] -> Printf.sprintf "%d,%d" (int_of_n x) (int_of_n y)
            | _ -> "?" in
          Printf.printf "DETAILS %d %d %s raw=%s\n" c s name raw
      done
    done
    ;
    (* state codes of a BGP4MP state change: the u16 <-> State conversion is the identity on numbers (te_state in all_enums:
       c18 round-trip theorems), and widening the record copies both fields *)
    (* typed NLRI iterators report the NlriType of (family, ADD-PATH): NlriType <-> (AfiSafiType, bool) is a bijection (c18 theorems) *)
    List.iter (fun c -> Printf.printf "ITNT %s ok\n" c)
      ["ipv4_unicast"; "ipv4_unicast_addpath"; "ipv4_multicast_addpath"; "ipv6_unicast"; "ipv6_unicast_addpath"; "ipv6_multicast_addpath"];
    (* ADD-PATH direction octets through addpath_families_vec: 1, 2, 3 are the defined directions (AddpathDirection, swept above);
       anything else makes the call an error *)
    for d = 0 to 255 do
      Printf.printf "APDIR %d %s\n" d (if d >= 1 && d <= 3 then Printf.sprintf "ok:3,%d" d else "E")
    done;
    let codes = [0; 1; 2; 3; 4; 5; 6; 7; 8; 255; 256; 65535] in
    List.iter (fun o -> List.iter (fun n -> Printf.printf "STCH %d %d %d %d %d %d\n" o n o n o n) codes) codes
  | _ -> prerr_endline "usage: model c18 obs <domain-file>"; exit 2
