(* Model-side observations for C08/C09 (same lines as harness/src/c08.rs) *)
open Model
open Rt

let rec int_of_nat = function O -> 0 | S n -> 1 + int_of_nat n
let rec nat_of_int i = if i <= 0 then O else S (nat_of_int (i - 1))
let ni (x : n) = string_of_int (int_of_n x)

let state_s = function SIdle -> "Idle" | SConnect -> "Connect" | SActive -> "Active" | SOpenSent -> "OpenSent"
                     | SOpenConfirm -> "OpenConfirm" | SEstablished -> "Established"

let event_of = function
  | "ManualStart" -> EManualStart | "ManualStop" -> EManualStop | "AutomaticStart" -> EAutomaticStart
  | "ManualStartWithPassiveTcpEstablishment" -> EManualStartWithPassiveTcpEstablishment
  | "AutomaticStartWithPassiveTcpEstablishment" -> EAutomaticStartWithPassiveTcpEstablishment
  | "ConnectRetryTimerExpires" -> EConnectRetryTimerExpires | "HoldTimerExpires" -> EHoldTimerExpires
  | "KeepaliveTimerExpires" -> EKeepaliveTimerExpires | "DelayOpenTimerExpires" -> EDelayOpenTimerExpires
  | "TcpCrAcked" -> ETcpCrAcked | "TcpConnectionConfirmed" -> ETcpConnectionConfirmed | "TcpConnectionFails" -> ETcpConnectionFails
  | "BgpOpen" -> EBgpOpen | "BgpHeaderErr" -> EBgpHeaderErr | "BgpOpenMsgErr" -> EBgpOpenMsgErr
  | "NotifMsgVerErr" -> ENotifMsgVerErr | "NotifMsg" -> ENotifMsg | "KeepaliveMsg" -> EKeepaliveMsg
  | "UpdateMsg" -> EUpdateMsg | "UpdateMsgErr" -> EUpdateMsgErr
  | "BgpOpenWithDelayOpenTimerRunning" -> EBgpOpenWithDelayOpenTimerRunning
  | _ -> failwith "event name"

let fam_s (a, s) = Printf.sprintf "%s.%s" (ni a) (ni s)

(* the OPEN as the FSM sees it; allowed = odd ASN (the harness configuration) *)
let openp_of (b : n list) : openp option =
  match open_check b with
  | Ok _ ->
    (match o_my_asn b, o_holdtime b, o_identifier b, o_four_octet_capable b with
     | Ok asn, Ok hold, Ok id, Ok four ->
       Some { op_allowed = (int_of_n asn) mod 2 = 1; op_hold = hold; op_id = id; op_asn = asn;
              op_addpath = o_addpath_families b; op_four = four }
     | _ -> None)
  | _ -> None

(* Message::from_octets with the connection's configuration *)
let wmsg_of (sc : sconfig) (b : n list) (uid : int) : wmsg option =
  match msg_dispatch b with
  | Ok MOpen -> (match openp_of b with Some o -> Some (WOpen o) | None -> None)
  | Ok MUpdate -> (match parse_update sc b with Ok _ -> Some (WUpdate (n_of_int uid)) | _ -> None)
  | Ok MNotification -> (match notif_check b with Ok _ -> Some (WNotification (n_of_int uid)) | _ -> None)
  | Ok MKeepalive -> (match keepalive_check b with Ok _ -> Some WKeepalive | _ -> None)
  | _ -> None

let fsm_case (delay_open : bool) (hold : int) (ap : String.t) (steps : String.t) : String.t =
  let fams = if ap = "-" then [] else
      List.map (fun e -> match String.split_on_char '.' e with [a; s] -> (n_of_int (int_of_string a), n_of_int (int_of_string s)) | _ -> failwith "fam")
        (String.split_on_char ',' ap) in
  let s = ref (init delay_open true (n_of_int hold) fams) in
  let fields = ref [] in
  let stop = ref false in
  List.iter (fun st ->
      if st <> "" && not !stop then begin
        let parts = String.split_on_char ':' st in
        let before = !s in
        (* out / app are drained after every step: run on a session with empty queues *)
        let cur = { before with s_out = []; s_app = [] } in
        let (s', oc) = match parts with
          | ["e"; name] -> fsm_step cur (event_of name) dummy_open
          | ["E"; name; h] -> (match openp_of (bytes_of_hex h) with Some o -> fsm_step cur (event_of name) o | None -> failwith "E: open")
          | [("m" | "o"); h] ->
            (match wmsg_of (if cur.s_conn then cur.s_sc else sc_modern) (bytes_of_hex h) 0 with
             | Some m -> handle_msg cur m
             | None -> (cur, OErr))
          | ["t"; h] ->
            (match wmsg_of (if cur.s_conn then cur.s_sc else sc_modern) (bytes_of_hex h) 0 with
             | Some m -> tick_msg cur m
             | None -> (upd_st (upd_conn cur false) SConnect, OErr))
          | ["U"; n; h] ->
            let rec go k st = if k = 0 then (st, ODone) else
                (match wmsg_of (if st.s_conn then st.s_sc else sc_modern) (bytes_of_hex h) 0 with
                 | Some m -> (match handle_msg st m with (st', ODone) -> go (k - 1) st' | r -> r)
                 | None -> (st, OErr)) in
            go (int_of_string n) cur
          | ["G"] -> (cur, ODone)                 (* re-applying the negotiated configuration changes nothing *)
          | ["A"; _] -> attach_stream cur          (* the octets only make the new socket readable *)
          | ["c"] | ["c"; _] -> (upd_st (upd_conn (push_app cur AConnLost) false) SConnect, ODone)
          | _ -> failwith "step" in
        s := s';
        let res = match oc with ODone -> "ok" | OErr -> "err" | OPanic -> "PANIC" in
        let b x = if x then "1" else "0" in
        let cfgs = if not s'.s_conn then "-" else begin
            let all = fams @ [(n_of_int 1, n_of_int 1); (n_of_int 2, n_of_int 1); (n_of_int 1, n_of_int 2)] in
            let strs = List.map (fun f -> Printf.sprintf "%s:%s" (fam_s f) (match get_addpath s'.s_sc f with Some d -> ni d | None -> "-")) all in
            let strs = List.sort_uniq Stdlib.compare strs in
            Printf.sprintf "%s/%s" (b s'.s_sc.sc_four) (String.concat "," strs) end in
        let out = String.concat "+" (List.map (function POpen -> (let (four, aps) = sent_open_caps s' in
                                                                       Printf.sprintf "open[4=%s;ap=%s]" (b four)
                                                                         (String.concat "," (List.sort Stdlib.compare (List.map (fun (f, d) -> fam_s f ^ ":" ^ ni d) aps))))
                                                         | PKeepalive -> "keepalive"
                                                         | PNotif (c, sub) -> Printf.sprintf "notif:%s.%s" (ni c) (ni sub)) s'.s_out) in
        let app = String.concat "+" (List.map (function AUpdate _ -> "update" | ANotification _ -> "notification"
                                                         | ANegotiated (_, asn, _, _) -> "negotiated:" ^ ni asn | AConnLost -> "lost") s'.s_app) in
        fields := Printf.sprintf "%s,%d,%s%s%s%s,%s,%s|%s|%s|%s" (state_s s'.s_st) (int_of_nat s'.s_crc) (b s'.s_crt) (b s'.s_hold) (b s'.s_ka) (b s'.s_dot)
            (b s'.s_conn) cfgs out app res :: !fields;
        if res = "PANIC" then stop := true
      end) (String.split_on_char ';' steps);
  String.concat " ; " (List.rev !fields)

let valid_modern (b : n list) : bool = match wmsg_of sc_modern b 0 with Some _ -> true | None -> false

let frm_case (chunks : String.t) : String.t =
  let buf = ref [] in
  let out = ref [] in
  let stop = ref false in
  List.iter (fun ch ->
      if not !stop then begin
        if ch <> "-" then buf := !buf @ bytes_of_hex ch;
        let continue = ref true in
        while !continue do
          match parse_frame valid_modern !buf with
          | Panic -> out := "PANIC" :: !out; stop := true; continue := false
          | Err -> out := "E" :: !out; stop := true; continue := false
          | Ok None -> continue := false
          | Ok (Some (fr, rest)) -> out := hex_of_bytes fr :: !out; buf := rest
        done
      end) (String.split_on_char ',' chunks);
  Printf.sprintf "%s rest=%d" (String.concat "," (List.rev !out)) (List.length !buf)

(* SCK: the socket reader on these reads (the fuel exceeds the number of frames any stream of that size holds) *)
let sck_case (chunks : String.t) : String.t =
  let reads = List.filter (fun c -> c <> []) (List.map (fun ch -> if ch = "-" then [] else bytes_of_hex ch) (String.split_on_char ',' chunks)) in
  let total = List.fold_left (fun a c -> a + List.length c) 0 reads in
  let rec nat_of k = if k <= 0 then O else S (nat_of (k - 1)) in
  let (frames, e) = read_all valid_modern (nat_of (total / 19 + 2)) [] reads in
  Printf.sprintf "%s end=%s" (String.concat "," (List.map hex_of_bytes frames))
    (match e with RdEof -> "EOF" | RdErr -> "E" | RdPanic -> "PANIC" | RdFuel -> "FUEL")

let run (args : String.t list) =
  match args with
  | [file] ->
    List.iter (fun l ->
        match split_ws l with
        | ["FSM"; id; d; hold; ap; steps] -> Printf.printf "FSM %s %s\n" id (fsm_case (d = "1") (int_of_string hold) ap steps)
        | ["FSM"; id; d; hold; ap] -> Printf.printf "FSM %s %s\n" id (fsm_case (d = "1") (int_of_string hold) ap "")
        | ["FRM"; id; chunks] -> Printf.printf "FRM %s %s\n" id (frm_case chunks)
        | ["SCK"; id; _mode; chunks] -> Printf.printf "SCK %s %s\n" id (sck_case chunks)
        | ["RDS"; id; _k; h] ->
          (* read_exact makes the chunking of the source invisible: the model has no k *)
          let rec split n l = if n = 0 then ([], l) else match l with [] -> ([], []) | x :: t -> let (a, b) = split (n - 1) t in (x :: a, b) in
          let rec go src cnt acc =
            if cnt = 0 then List.rev acc else
            let (h18, avail) = split 18 src in
            match read_message h18 avail with
            | Ok None -> List.rev ("none" :: acc)
            | Err -> List.rev ("E" :: acc)
            | Panic -> List.rev ("PANIC" :: acc)
            | Ok (Some b) -> go (snd (split (List.length b) src)) (cnt - 1) (("ok:" ^ hex_of_bytes b) :: acc) in
          Printf.printf "RDS %s %s\n" id (String.concat "," (go (bytes_of_hex h) 64 []))
        | ["RDM"; id; h] ->
          let src = bytes_of_hex h in
          let rec split k l = if k = 0 then ([], l) else match l with x :: tl -> let (a, r) = split (k - 1) tl in (x :: a, r) | [] -> ([], []) in
          let (h18, avail) = split 18 src in
          let r = match read_message h18 avail with
            | Ok None -> "none" | Ok (Some b) -> "ok:" ^ hex_of_bytes b | Err -> "E" | Panic -> "PANIC" in
          Printf.printf "RDM %s %s\n" id r
        | _ -> ()) (read_lines file)
  | _ -> prerr_endline "usage: model c08 <cases>"; exit 2
