(* Model-side observations for C13 (same lines as harness/src/c13.rs) *)
open Model
open Rt

let parse_hops = M_hops.parse_hops

let tyname t = match int_of_n t with 1 -> "AS_SET" | 2 -> "AS_SEQUENCE" | 3 -> "AS_CONFED_SEQUENCE" | _ -> "AS_CONFED_SET"

let hop_s = function
  | HAsn0 a -> Printf.sprintf "AS%d" (int_of_n a)
  | HSeg (t, asns) -> Printf.sprintf "%s(%s)" (tyname t) (String.concat "," (List.map (fun a -> Printf.sprintf "AS%d" (int_of_n a)) asns))

let hops_s hs = if hs = [] then "-" else String.concat "|" (List.map hop_s hs)

let rec int_of_nat = function O -> 0 | S n -> 1 + int_of_nat n
let rec nat_of_int i = if i <= 0 then O else S (nat_of_int (i - 1))

let le k v = let rec go k v = if k = 0 then [] else (v land 255) :: go (k - 1) (v lsr 8) in go k v
let hash_bytes (l : hword list) : String.t =
  let bs = List.concat (List.map (function HU8 n -> [int_of_n n] | HU32 n -> le 4 (int_of_n n)) l) in
  if bs = [] then "-" else String.concat "" (List.map (Printf.sprintf "%02x") bs)

let run (args : String.t list) =
  match args with
  | [file] ->
    List.iter (fun l ->
        match split_ws l with
        | ["HOPS"; id; toks] ->
          let hp = parse_hops toks in
          let hc = List.length hp and hcps = int_of_nat (hop_count_path_selection hp) in
          let wire = match to_as_path hp with
            | Ok w ->
              let valid = as_path_check true w in
              let counts = match wire_segments true w with
                | Ok segs -> if segs = [] then "-" else String.concat "," (List.map (fun (_, a) -> string_of_int (List.length a)) segs)
                | _ -> "?" in
              let (hs, back) = match wire_hops true w with Ok h -> (hops_s h, if h = hp then 1 else 0) | _ -> ("?", 0) in
              Printf.sprintf "wire=%s valid=%d counts=%s hops=%s back=%d" (hex_of_bytes w) (if valid then 1 else 0) counts hs back
            | _ -> "wire=PANIC" in
          let s16 = match try_to_asn16_path hp with Ok w -> hex_of_bytes w | Err -> "E" | Panic -> "PANIC" in
          Printf.printf "HOPS %s hc=%d hcps=%d %s w16=%s\n" id hc hcps wire s16
        | ["WIRE"; id; four; h; asn; n] ->
          let four = four = "1" in
          let w = bytes_of_hex h in
          (match wire_hops four w with
           | Ok hs ->
             let (back, backhops) = match to_as_path hs with
               | Ok w' -> (hex_of_bytes w', (match wire_hops true w' with Ok h' -> hops_s h' | _ -> "?"))
               | _ -> ("PANIC", "?") in
             let pre = match as_path_prepend four w (n_of_int (int_of_string asn)) (nat_of_int (int_of_string n)) with
               | Ok w' -> (match wire_hops true w' with Ok h' -> hops_s h' | _ -> "?")
               | _ -> "PANIC" in
             let w16 = match try_to_asn16_path hs with Ok w' -> hex_of_bytes w' | Err -> "E" | Panic -> "PANIC" in
             Printf.printf "WIRE %s hops=%s back=%s backhops=%s pre=%s w16=%s\n" id (hops_s hs) back backhops pre w16
           | Err -> Printf.printf "WIRE %s E\n" id
           | Panic -> Printf.printf "WIRE %s PANIC\n" id)
        | ["EQ"; id; h16; h32] ->
          (match wire_segments false (bytes_of_hex h16), wire_segments true (bytes_of_hex h32) with
           | Ok a, Ok b ->
             let eq = segs_eqb a b and eqr = segs_eqb b a in
             let ha = path_hash a and hb = path_hash b in
             Printf.printf "EQ %s eq=%d eqr=%d hasheq=%d h=%s\n" id (if eq then 1 else 0) (if eqr then 1 else 0)
               (if ha = hb then 1 else 0) (hash_bytes ha)
           | _ -> Printf.printf "EQ %s E\n" id)
        | _ -> ()) (read_lines file)
  | _ -> prerr_endline "usage: model c13 <cases>"; exit 2
