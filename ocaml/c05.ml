(* Model-side observations for C05/C14 (same lines as harness/src/c05.rs) *)
open Model
open Rt

let fam_of_string = function
  | "Ipv4Unicast" -> Ipv4Unicast | "Ipv4Multicast" -> Ipv4Multicast | "Ipv4MplsUnicast" -> Ipv4MplsUnicast
  | "Ipv4MplsVpnUnicast" -> Ipv4MplsVpnUnicast | "Ipv4RouteTarget" -> Ipv4RouteTarget | "Ipv4FlowSpec" -> Ipv4FlowSpec
  | "Ipv6Unicast" -> Ipv6Unicast | "Ipv6Multicast" -> Ipv6Multicast | "Ipv6MplsUnicast" -> Ipv6MplsUnicast
  | "Ipv6MplsVpnUnicast" -> Ipv6MplsVpnUnicast | "Ipv6FlowSpec" -> Ipv6FlowSpec
  | "L2VpnVpls" -> L2VpnVpls | "L2VpnEvpn" -> L2VpnEvpn
  | s -> failwith ("family " ^ s)

let rec int_of_nat = function O -> 0 | S n -> 1 + int_of_nat n
let rec nat_of_int i = if i <= 0 then O else S (nat_of_int (i - 1))

let pfx (x : prefix) = Printf.sprintf "%d:%s" (int_of_nat x.pf_len) (hex_of_bytes x.pf_addr)

let describe (n : nlri) : String.t =
  let pid = match n.n_pathid with None -> "pid=-" | Some p -> Printf.sprintf "pid=%d" (int_of_n p) in
  let body = match n.n_body with
    | BPrefix x -> "P:" ^ pfx x
    | BMpls (x, l) -> Printf.sprintf "M:%s:%s" (pfx x) (hex_of_bytes l)
    | BVpn (x, l, rd) -> Printf.sprintf "V:%s:%s:%s" (pfx x) (hex_of_bytes l) (hex_of_bytes rd)
    | BRouteTarget raw -> Printf.sprintf "R:%d" (if raw = [] then 1 else 0)
    | BFlow raw -> "F:" ^ hex_of_bytes raw
    | BVpls _ -> "L"
    | BEvpn (ty, _) -> Printf.sprintf "E:%d" (int_of_n ty) in
  pid ^ " " ^ body

let one fam ap (b : n list) : String.t =
  match parse_nlri fam ap (parser_of b) with
  | Panic -> "PANIC"
  | Err -> "E"
  | Ok (v, p) ->
    let consumed = int_of_nat p.p_pos in
    let comp = compose_nlri v in
    let clen = int_of_nat (compose_len v) in
    let (comp_s, rt) = match comp with
      | Ok c ->
        let again = c @ [n_of_int 0xde; n_of_int 0xad] in
        let ok = match parse_nlri fam ap (parser_of again) with
          | Ok (v2, p2) -> nlri_eqb v2 v && int_of_nat p2.p_pos = List.length c
          | _ -> false in
        (hex_of_bytes c, if ok then "1" else "0")
      | _ -> ("PANIC", "-") in
    Printf.sprintf "ok consumed=%d %s comp=%s clen=%d rt=%s" consumed (describe v) comp_s clen rt

let cat fam ap (b : n list) : String.t =
  match nlri_iter (nat_of_int (List.length b + 2)) fam ap (parser_of b) with
  | None -> "FUEL"
  | Some items ->
    let s = List.map (fun r -> match r with
        | Ok v -> (match compose_nlri v with Ok c -> hex_of_bytes c | _ -> "PANIC")
        | Err -> "E"
        | Panic -> "PANIC") items in
    if List.mem "PANIC" s && List.for_all (fun x -> x <> "E") s && List.length s = 1 then "PANIC"
    else Printf.sprintf "n=%d %s" (List.length s) (String.concat "," s)

let ord_s = function Lt -> "Lt" | Eq -> "Eq" | Gt -> "Gt"

let run (args : String.t list) =
  match args with
  | [file] ->
    List.iter (fun l ->
        match split_ws l with
        | ["ONE"; id; fam; ap; h] ->
          Printf.printf "ONE %s %s\n" id (one (fam_of_string fam) (ap = "1") (bytes_of_hex h))
        | ["CAT"; id; fam; ap; h] ->
          Printf.printf "CAT %s %s\n" id (cat (fam_of_string fam) (ap = "1") (bytes_of_hex h))
        | ["CMP"; id; f1; a1; h1; f2; a2; h2] ->
          let g f a h = match parse_nlri (fam_of_string f) (a = "1") (parser_of (bytes_of_hex h)) with
            | Ok (v, _) -> Some v | _ -> None in
          (match g f1 a1 h1, g f2 a2 h2 with
           | Some a, Some b ->
             let eq = nlri_eqb a b in
             let c = nlri_cmp prefix_cmp a b in
             let ha = hash_input a and hb = hash_input b in
             Printf.printf "CMP %s eq=%d cmp=%s heq=%d xbuf=1 xeq=%d xhash=1 h1=%s h2=%s\n" id
               (if eq then 1 else 0) (ord_s c) (if ha = hb then 1 else 0) (if eq then 1 else 0)
               (hex_of_bytes ha) (hex_of_bytes hb)
           | _ -> Printf.printf "CMP %s UNPARSED\n" id)
        | _ -> ()) (read_lines file)
  | _ -> prerr_endline "usage: model c05 <cases>"; exit 2
