(* Model-side observations for C16 (same lines as harness/src/c16.rs) *)
open Model
open Rt

let rec int_of_nat = function O -> 0 | S n -> 1 + int_of_nat n

let pfx (p : prefix) : String.t = Printf.sprintf "%d/%s" (int_of_nat p.pf_len) (hex_of_bytes p.pf_addr)
(* an FSM state as its code and the name the generated typeenum! table (Gen/EnumTables.v: State) gives it *)
let state_s (n : n) : String.t =
  let names = te_bgp_fsm_state_machine_State_names in
  let nm = match of_int te_bgp_fsm_state_machine_State n with
    | Named i -> str_of_coq (List.nth names (int_of_n i))
    | Ranged (i, k) -> Printf.sprintf "%s(%d)" (str_of_coq (List.nth names (int_of_n i))) (int_of_n k)
    | Catch k -> Printf.sprintf "Unimplemented(%d)" (int_of_n k)
    | Reject -> "REJECT" in
  Printf.sprintf "%d/%s" (int_of_n n) nm

let peer (p : peer) : String.t = Printf.sprintf "%s/%s/%d" (hex_of_bytes p.pe_bgp_id) (hex_of_bytes p.pe_addr) (int_of_n p.pe_asn)
let b x = if x then 1 else 0

let rib_case (bs : n list) : String.t =
  let seq = (match rib_entries bs with
      | Ok l -> Printf.sprintf "[%s]" (String.concat "," (List.map (fun ((((v6, idx), pe), p), attrs) ->
          Printf.sprintf "%d:%d:%s:%s:%s" (b v6) (int_of_n idx) (peer pe) (pfx p) (hex_of_bytes attrs)) l))
      | Err -> "ERR" | Panic -> "PANIC") in
  let entry ((p, idx), attrs) = Printf.sprintf "%s:%d:%s" (pfx p) (int_of_n idx) (hex_of_bytes attrs) in
  let t = tables bs in
  let tabs = (match t with
      | Ok (peers, ts) ->
        Printf.sprintf "%s#[%s]" (String.concat ";" (List.map peer peers))
          (String.concat "|" (List.map (fun (v6, es) -> Printf.sprintf "%d{%s}" (b v6) (String.concat ";" (List.map entry es))) ts))
      | Err -> "ERR" | Panic -> "PANIC") in
  (* the parallel iterator: extract(..).unwrap(), then the tables in some interleaving; printed sorted *)
  let par = (match t with
      | Ok (_, ts) -> Printf.sprintf "[%s]" (String.concat "," (List.sort Stdlib.compare (List.concat_map (fun (_, es) -> List.map entry es) ts)))
      | Err | Panic -> "PANIC") in
  Printf.sprintf " rib=%s tables=%s par1=%s par2=%s par3=%s par8=%s par16=%s" seq tabs par par par par par

let mp_case (bs : n list) : String.t =
  match messages bs with
  | Panic -> " msgs=PANIC"
  | Err -> " msgs=ERR"
  | Ok l ->
    Printf.sprintf " msgs=[%s]" (String.concat "," (List.map (function
        | MpState (as4, pa, la, ifc, afi, a, bb, o, nw) ->
          Printf.sprintf "S%d:%d:%d:%d:%d:%s:%s:%s:%s" (b as4) (int_of_n pa) (int_of_n la) (int_of_n ifc) (int_of_n afi)
            (hex_of_bytes a) (hex_of_bytes bb) (state_s o) (state_s nw)
        | MpMsg (as4, pa, la, ifc, afi, a, bb, m) ->
          Printf.sprintf "M%d:%d:%d:%d:%d:%s:%s:%s" (b as4) (int_of_n pa) (int_of_n la) (int_of_n ifc) (int_of_n afi)
            (hex_of_bytes a) (hex_of_bytes bb) (hex_of_bytes m)) l))

let run (args : String.t list) =
  match args with
  | ["obs"; path] ->
    List.iter (fun l ->
        match split_ws l with
        | [k; h] ->
          let bs = bytes_of_hex h in
          let r = (match k with "RIB" -> rib_case bs | "MP" -> mp_case bs | _ -> "") in
          print_endline (Printf.sprintf "%s %s%s" k h r)
        | _ -> ()) (read_lines path)
  | _ -> prerr_endline "usage: model c16 obs <cases>"; exit 2
