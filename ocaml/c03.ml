(* Model-side observations for C03 (same lines as harness/src/c03.rs) *)
open Model
open Rt

let rec int_of_nat = function O -> 0 | S n -> 1 + int_of_nat n
let rec nat_of_int i = if i <= 0 then O else S (nat_of_int (i - 1))

let rs (f : 'a -> String.t) (r : 'a res) : String.t = match r with Ok v -> f v | Err -> "E" | Panic -> "PANIC"
let ni (x : n) : String.t = string_of_int (int_of_n x)
let fam (a, s) = Printf.sprintf "%s.%s" (ni a) (ni s)

let open_obs (b : n list) : String.t =
  match open_check b with
  | Panic -> "PANIC" | Err -> "E"
  | Ok _ ->
    let len = match b with _ -> (match index b (nat_of_int 16), index b (nat_of_int 17) with Ok x, Ok y -> string_of_int (int_of_n x * 256 + int_of_n y) | _ -> "PANIC") in
    let params = rs (fun l -> Printf.sprintf "%d[%s]" (List.length l) (String.concat "," (List.map (fun (t, _) -> ni t) l))) (o_parameters b) in
    let caps = rs (fun l -> Printf.sprintf "%d[%s]" (List.length l) (String.concat "," (List.map (fun (t, v) -> Printf.sprintf "%s:%s" (ni t) (hex_of_bytes v)) l))) (o_capabilities b) in
    let mp = rs (fun l -> Printf.sprintf "[%s]" (String.concat "," (List.map fam l))) (o_multiprotocol_ids b) in
    let ap = match o_capabilities b with
      | Panic -> "PANIC" | Err -> "PANIC"
      | Ok _ -> (match o_addpath_families b with
          | Ok l -> Printf.sprintf "[%s]" (String.concat "," (List.map (fun (f, d) -> Printf.sprintf "%s:%s" (fam f) (ni d)) l))
          | Err -> "E" | Panic -> "PANIC") in
    Printf.sprintf "ok len=%s ver=%s asn=%s hold=%s id=%s opl=%s params=%s caps=%s four=%s mp=%s ap=%s sw=%s"
      len (rs ni (o_version b)) (rs ni (o_my_asn b)) (rs ni (o_holdtime b)) (rs hex_of_bytes (o_identifier b)) (rs ni (o_opt_parm_len b))
      params caps (rs (fun x -> if x then "1" else "0") (o_four_octet_capable b)) mp ap
      (rs (function Some _ -> "some" | None -> "none") (o_software_version b))

let details_raw_of (c : n) (s : n) : (n * n) option =
  match details_of details_error_code details_table c s with
  | Some d -> (match details_raw details_error_code details_table d with Some [x; y] -> Some (x, y) | _ -> None)
  | None -> None

let notif_obs (b : n list) : String.t =
  match notif_check b with
  | Panic -> "PANIC" | Err -> "E"
  | Ok _ ->
    let code = rs ni (n_code b) in
    let raw = match n_code b, n_subcode b with
      | Ok c, Ok s -> (match details_raw_of c s with Some (x, y) -> Printf.sprintf "%s,%s" (ni x) (ni y) | None -> "PANIC")
      | _ -> "PANIC" in
    let data = match n_data b with Some d -> hex_of_bytes d | None -> "none" in
    Printf.sprintf "ok code=%s raw=%s data=%s" code raw data

let ob_case (ops : String.t) : String.t =
  let o = ref ob_new in
  List.iter (fun op ->
      if op <> "" then
        match String.index_opt op '=' with
        | None -> failwith "op"
        | Some i ->
          let k = String.sub op 0 i and v = String.sub op (i + 1) (String.length op - i - 1) in
          (match k with
           | "asn" -> o := ob_set_asn !o (n_of_int (int_of_string v))
           | "hold" -> o := { !o with ob_hold = n_of_int (int_of_string v) }
           | "id" -> o := { !o with ob_id = bytes_of_hex v }
           | "cap" -> o := ob_add_cap !o (bytes_of_hex v)
           | "four" -> o := ob_four_octet !o (n_of_int (int_of_string v))
           | "mp" -> (match String.split_on_char '.' v with [a; s] -> o := ob_add_mp !o (n_of_int (int_of_string a), n_of_int (int_of_string s)) | _ -> failwith "mp")
           | "ap" -> (match String.split_on_char '.' v with
               | [a; s; d] -> o := ob_add_addpath !o (n_of_int (int_of_string a), n_of_int (int_of_string s)) (n_of_int (int_of_string d))
               | _ -> failwith "ap")
           | _ -> failwith "op")) (String.split_on_char ';' ops);
  match ob_finish !o with Ok b -> "ok:" ^ hex_of_bytes b | Err -> "E" | Panic -> "PANIC"

let run (args : String.t list) =
  match args with
  | [file] ->
    List.iter (fun l ->
        match split_ws l with
        | ["OPEN"; id; h] -> Printf.printf "OPEN %s %s\n" id (open_obs (bytes_of_hex h))
        | ["NOTIF"; id; h] -> Printf.printf "NOTIF %s %s\n" id (notif_obs (bytes_of_hex h))
        | ["KEEP"; id; h] -> Printf.printf "KEEP %s %s\n" id (rs (fun _ -> "ok") (keepalive_check (bytes_of_hex h)))
        | ["RR"; id; h] -> Printf.printf "RR %s %s\n" id (rs (fun (f, s) -> Printf.sprintf "ok fam=%s sub=%s" (fam f) (ni s)) (rr_parse (bytes_of_hex h)))
        | ["MSG"; id; h] ->
          let b = bytes_of_hex h in
          let r = match msg_dispatch b with
            | Panic -> "PANIC" | Err -> "E"
            | Ok MOpen -> rs (fun _ -> "open") (open_check b)
            | Ok MUpdate -> "E"
            | Ok MNotification -> rs (fun _ -> "notification") (notif_check b)
            | Ok MKeepalive -> rs (fun _ -> "keepalive") (keepalive_check b)
            | Ok MUnsupported -> "E" in
          Printf.printf "MSG %s %s\n" id r
        | ["OB"; id; ops] -> Printf.printf "OB %s %s\n" id (ob_case ops)
        | ["OB"; id] -> Printf.printf "OB %s %s\n" id (ob_case "")
        | ["NB"; id; c; s; d] ->
          let data = if d = "none" then None else Some (bytes_of_hex d) in
          let r = match details_raw_of (n_of_int (int_of_string c)) (n_of_int (int_of_string s)) with
            | Some (x, y) -> rs (fun b -> "ok:" ^ hex_of_bytes b) (notif_build x y data)
            | None -> "PANIC" in
          Printf.printf "NB %s %s\n" id r
        | ["KB"; id] | ["KB"; id; _] -> Printf.printf "KB %s ok:%s\n" id (hex_of_bytes keepalive_build)
        | _ -> ()) (read_lines file)
  | _ -> prerr_endline "usage: model c03 <cases>"; exit 2
