(* Model-side observations for C17 (same lines as harness/src/c17.rs) *)
open Model
open Rt

let rec int_of_nat = function O -> 0 | S n -> 1 + int_of_nat n
let rec nat_of_int i = if i <= 0 then O else S (nat_of_int (i - 1))

let comp (a : pattr) : String.t = match compose a with Ok b -> hex_of_bytes b | _ -> "PANIC"
let opt = function Some a -> comp a | None -> "-"

let owned (h : String.t) : pattr list =
  let bs = bytes_of_hex h in
  List.map (function Ok w -> (match to_owned w with Ok o -> o | _ -> failwith "owned") | _ -> failwith "item")
    (attrs_walk (nat_of_int (List.length bs + 1)) true (parser_of bs))

let typed_codes = [1; 2; 3; 4; 5; 6; 7; 8; 9; 10; 16; 17; 18; 20; 21; 25; 32; 35; 128; 255]
let ws_codes = [1; 2; 4; 5; 7; 8; 9; 10; 16; 21; 25; 32; 35]

let dump (m : (n * pattr) list) : String.t =
  let bl = match pamap_bytes_len m with Ok n -> string_of_int (int_of_nat n) | _ -> "PANIC" in
  Printf.sprintf "len=%d empty=%d bytes=%s [%s]" (List.length m) (if m = [] then 1 else 0) bl
    (String.concat "," (List.map (fun (k, a) -> Printf.sprintf "%d=%s" (int_of_n k) (comp a)) m))

let comm_of (s : String.t) : n * n =
  match String.split_on_char '.' s with
  | [fl; h] -> (n_of_int (int_of_string fl), unbe (bytes_of_hex h))
  | _ -> failwith "comm"
let comm_s ((c, v) : n * n) : String.t =
  Printf.sprintf "%d.%s" (int_of_n c) (hex_of_bytes (be (comm_width c) v))

let map_case (ops : String.t) : String.t =
  let m = ref [] in
  let ws = ref { ws_nh = None; ws_attrs = [] } in
  let out = ref [] in
  List.iter (fun op ->
      if op <> "" then begin
        let k, arg = match String.index_opt op ':' with
          | Some i -> String.sub op 0 i, String.sub op (i + 1) (String.length op - i - 1)
          | None -> op, "" in
        let r = match k with
          | "S" -> let (m', o) = pm_set_from_enum !m (List.hd (owned arg)) in m := m'; opt o
          | "A" -> let (m', o) = pm_add_attribute !m (List.hd (owned arg)) in m := m'; opt o
          | "G" -> let c = int_of_string arg in if List.mem c typed_codes then opt (pm_get !m (n_of_int c)) else "nocode"
          | "R" -> let c = int_of_string arg in
            if List.mem c typed_codes then (let (m', o) = pm_remove !m (n_of_int c) in m := m'; opt o) else "nocode"
          | "M" ->
            let o = List.fold_left (fun acc a -> fst (pm_add_attribute acc a)) [] (owned arg) in
            let (m', o') = pm_merge_upsert !m o in m := m'; Printf.sprintf "other=%d" (List.length o')
          | "N" -> m := pm_remove_non_transitives !m; "ok"
          | "L" -> dump !m
          | "WS" -> let a = List.hd (owned arg) in
            if List.mem (int_of_n (attr_code a)) ws_codes && (match a with AUnimpl _ | AInvalid _ -> false | _ -> true)
            then (ws := ws_set_attr !ws a; "ok") else "unsupported"
          | "WG" -> let c = int_of_string arg in if List.mem c ws_codes then opt (ws_get_attr !ws (n_of_int c)) else "unsupported"
          | "WC" -> let l = if arg = "-" then [] else List.map comm_of (String.split_on_char ',' arg) in
            ws := ws_set_communities !ws l; "ok"
          | "WR" -> Printf.sprintf "[%s]" (String.concat "," (List.map comm_s (ws_get_communities !ws)))
          | "WL" -> dump !ws.ws_attrs
          | _ -> failwith "op" in
        out := r :: !out
      end) (String.split_on_char ';' ops);
  String.concat "|" (List.rev !out)

let nh_s = function
  | None -> "none"
  | Some (NhUni a) -> "uni:" ^ hex_of_bytes a
  | Some (NhLL (a, c)) -> Printf.sprintf "ll:%s:%s" (hex_of_bytes a) (hex_of_bytes c)
  | Some (NhVpn (rd, a)) -> Printf.sprintf "vpn:%s:%s" (hex_of_bytes rd) (hex_of_bytes a)
  | Some NhEmpty -> "empty"

let from_case cfg (k : famkind) (ap : bool) (bs : n list) : String.t =
  match parse_update cfg bs with
  | Panic -> "parse=PANIC" | Err -> "parse=E"
  | Ok u ->
    let items = a_path_attributes bs u in
    let map_s = if List.exists (fun r -> r = Err) items then "err" else
        match a_pamap bs u with Ok m -> dump m | Err -> "err" | Panic -> "PANIC" in
    let opa = String.concat "," (List.filter_map (fun c ->
        match opa_get bs u (n_of_int c) with Some a -> Some (Printf.sprintf "%d:%s" c (comp a)) | None -> None) typed_codes) in
    let ws = match typed_announcements bs u k ap with
      | Ok (Some (Ok _ :: _)) ->
        if List.exists (fun r -> r = Err) items then "err" else
        (match ws_from_pdu k bs u with
         | Ok w -> Printf.sprintf "nh=%s %s" (nh_s w.ws_nh) (dump w.ws_attrs)
         | Err -> "err" | Panic -> "PANIC")
      | Panic -> "PANIC"
      | _ -> "nonlri" in
    Printf.sprintf "map=%s opa=[%s] ws=%s" map_s opa ws

let run (args : String.t list) =
  match args with
  | [file] ->
    List.iter (fun l ->
        match split_ws l with
        | ["MAP"; id; ops] -> Printf.printf "MAP %s %s\n" id (map_case ops)
        | ["MAP"; id] -> Printf.printf "MAP %s \n" id
        | ["FROM"; id; four; ap; fam; a; h] ->
          Printf.printf "FROM %s %s\n" id (from_case (C01.cfg_of (four = "1") ap) (C05.fam_of_string fam) (a = "1") (bytes_of_hex h))
        | _ -> ()) (read_lines file)
  | _ -> prerr_endline "usage: model c17 <cases>"; exit 2
