(* Model-side observations for C06/C07 (same lines as harness/src/c06.rs) *)
open Model
open Rt

let rec int_of_nat = function O -> 0 | S n -> 1 + int_of_nat n
let rec nat_of_int i = if i <= 0 then O else S (nat_of_int (i - 1))

let err_s = function
  | EEmptyReach -> "EmptyReach" | EEmptyUnreach -> "EmptyUnreach"
  | ETooLarge n -> Printf.sprintf "TooLarge:%d" (int_of_nat n) | EParse -> "Parse"

let mres_s = function MOk m -> "ok:" ^ hex_of_bytes m | MErr e -> "err:" ^ err_s e

let nexthop kind h : nexthop option =
  let b = bytes_of_hex h in
  let rec split k l = if k = 0 then ([], l) else match l with x :: tl -> let (a, r) = split (k - 1) tl in (x :: a, r) | [] -> ([], []) in
  match kind with
  | "U" | "M" -> Some (NhUni b)
  | "L" -> let (a, c) = split 16 b in Some (NhLL (a, c))
  | "V" -> let (rd, a) = split 8 b in Some (NhVpn (rd, a))
  | "E" -> Some NhEmpty
  | "X" -> None
  | _ -> failwith "nexthop kind"

exception Prep

let split_on c s = String.split_on_char c s

let build cfg (k : famkind) (ap : bool) (mode : String.t) (ops : String.t) : String.t =
  let b = ref (empty_builder k) in
  let notes = ref [] in
  let count = ref 0 in
  try
    List.iter (fun op ->
        if op <> "" && op <> "-" then begin
          match split_on ':' op with
          | ["T"; h] ->
            let bs = bytes_of_hex h in
            let items = attrs_walk (nat_of_int (List.length bs + 1)) true (parser_of bs) in
            let m = List.fold_left (fun m it ->
                match it with
                | Ok w -> (match to_owned w with Ok o -> pamap_insert m (wattr_code w) o | _ -> raise Prep)
                | _ -> raise Prep) [] items in
            b := { !b with bd_attrs = m }
          | [("A" | "W") as kd; h] ->
            (match parse_nlri k ap (parser_of (bytes_of_hex h)) with
             | Ok (n, p) when p.p_rest = [] ->
               incr count;
               b := if kd = "A" then add_announcement !b n else add_withdrawal !b n
             | _ -> raise Prep)
          | [("AI" | "WI" | "WV") as kd; hs] ->
            List.iter (fun h ->
                if h <> "" && h <> "-" then
                  match parse_nlri k ap (parser_of (bytes_of_hex h)) with
                  | Ok (n, p) when p.p_rest = [] ->
                    incr count;
                    b := if kd = "AI" then add_announcement !b n else add_withdrawal !b n
                  | _ -> raise Prep) (split_on ',' hs)
          | ["LL"; h] ->
            (* set_nexthop_ll_addr: the global part stays, the link-local part is replaced (or added to a plain IPv6 next hop) *)
            let addr = bytes_of_hex h in
            (match !b.bd_ann with
             | Some r -> (match r.r_nh with
                 | NhUni a when List.length a = 16 -> b := set_nexthop !b (NhLL (a, addr))
                 | NhLL (a, _) -> b := set_nexthop !b (NhLL (a, addr))
                 | _ -> raise Prep)
             | None -> b := set_nexthop !b (NhLL (List.init 16 (fun _ -> n_of_int 0), addr)))
          | ["N"; kind; h] ->
            (match nexthop kind h with
             | Some nh -> b := set_nexthop !b nh
             | None -> notes := "nh-err:Illegal" :: !notes)
          | _ -> failwith "op"
        end) (split_on ';' ops);
    let fuel = nat_of_int (!count + 4) in
    let body = match mode with
      | "S" -> (match into_message cfg !b with Ok m -> mres_s m | Err -> "E" | Panic -> "PANIC")
      | "K" -> (match take_message cfg !b with
          | Ok (m, rem) -> Printf.sprintf "%s rem=%d" (mres_s m) (match rem with Some _ -> 1 | None -> 0)
          | Err -> "E" | Panic -> "PANIC")
      | "M" -> (match into_messages fuel cfg !b with
          | None -> "HANG"
          | Some (Ok (Inl ms)) -> Printf.sprintf "ok n=%d %s" (List.length ms) (String.concat " " (List.map hex_of_bytes ms))
          | Some (Ok (Inr e)) -> "err:" ^ err_s e
          | Some Err -> "E" | Some Panic -> "PANIC")
      | "I" -> (match pdu_iter fuel cfg !b with
          | None -> "HANG"
          | Some l ->
            if List.exists (fun r -> r = Panic) l then "PANIC" else
            Printf.sprintf "n=%d %s" (List.length l) (String.concat " " (List.map (function Ok m -> mres_s m | _ -> "E") l)))
      | _ -> failwith "mode" in
    body ^ (if !notes = [] then "" else " " ^ String.concat " " (List.rev !notes))
  with Prep -> "PREP-PANIC"

let rebuild cfg (k : famkind) (ap : bool) (bs : n list) : String.t =
  match parse_update cfg bs with
  | Panic -> "parse=PANIC" | Err -> "parse=E"
  | Ok u ->
    let items = a_path_attributes bs u in
    let direct =
      if List.exists (fun r -> r = Err) items then "err:E-item" else
      match owned_all items with
      | Panic -> "PANIC" | Err -> "err:E-owned"
      | Ok xs -> (match compose_all xs with Ok v -> "ok:" ^ hex_of_bytes v | _ -> "PANIC") in
    let pamap =
      if List.exists (fun r -> r = Err) items then "err:InvalidAttribute" else
      match a_pamap bs u with
      | Panic -> "PANIC" | Err -> "err:Parse"
      | Ok m -> (match pamap_compose m with Ok v -> "ok:" ^ hex_of_bytes v | _ -> "PANIC") in
    let builder =
      if List.exists (fun r -> r = Err) items then "err:seed:InvalidAttribute" else
      match from_update_message bs u k with
      | Panic -> "PANIC" | Err -> "err:seed:Parse"
      | Ok b ->
        (match add_announcements_from_pdu bs u ap b with
         | Ok b ->
           (match add_withdrawals_from_pdu bs u ap b with
            | Ok b ->
              let b = match a_mp_next_hop bs u, a_announcements bs u with
                | Ok (Some (_, nh)), Ok (_ :: _) -> set_nexthop b nh
                | _ -> b in
              (match into_message cfg b with Ok m -> mres_s m | Err -> "E" | Panic -> "PANIC")
            | _ -> "PANIC")
         | _ -> "PANIC") in
    let builder2 =
      if List.exists (fun r -> r = Err) items then "err:seed:InvalidAttribute" else
      match from_update_message bs u k with
      | Panic -> "PANIC" | Err -> "err:seed:Parse"
      | Ok b ->
        (match add_withdrawals_from_pdu bs u ap b with
         | Ok b ->
           (match add_announcements_from_pdu bs u ap b with
            | Ok b ->
              (match add_withdrawals_from_pdu bs u ap b with
               | Ok b ->
                 let b = match a_mp_next_hop bs u, a_announcements bs u with
                   | Ok (Some (_, nh)), Ok (_ :: _) -> set_nexthop b nh
                   | _ -> b in
                 (match into_message cfg b with Ok m -> mres_s m | Err -> "E" | Panic -> "PANIC")
               | _ -> "PANIC")
            | _ -> "PANIC")
         | _ -> "PANIC") in
    Printf.sprintf "direct=%s pamap=%s builder=%s builder2=%s" direct pamap builder builder2

let run (args : String.t list) =
  match args with
  | [file] ->
    List.iter (fun l ->
        match split_ws l with
        | "BLD" :: id :: four :: ap :: fam :: a :: mode :: rest ->
          let ops = match rest with [o] -> o | _ -> "-" in
          Printf.printf "BLD %s %s\n" id (build (C01.cfg_of (four = "1") ap) (C05.fam_of_string fam) (a = "1") mode ops)
        | ["REB"; id; four; ap; fam; a; h] ->
          Printf.printf "REB %s %s\n" id (rebuild (C01.cfg_of (four = "1") ap) (C05.fam_of_string fam) (a = "1") (bytes_of_hex h))
        | _ -> ()) (read_lines file)
  | _ -> prerr_endline "usage: model c06 <cases>"; exit 2
