(* Model-side observations for C20 (same lines as harness/src/c20.rs) *)
open Model
open Rt

let op_of (s : String.t) : top =
  let arg () = n_of_int (int_of_string (String.sub s 1 (String.length s - 1))) in
  (* S / R / X: the same command, the harness only does not let the timer task run before the next command *)
  match Char.lowercase_ascii s.[0] with
  | 's' -> TStart
  | 'r' -> TReset
  | 'x' -> TStop
  | 'a' -> TAdvance (arg ())      (* A<ms>: the same, no task gets a turn meanwhile (only generated where no deadline passes) *)
  | 'w' -> TAwait (arg ())
  | _ -> failwith "op"

let run_case (secs : int) (ops : String.t list) : String.t =
  let i = n_of_int (secs * 1000) in
  let st = ref t_init in
  let out = ref [] in
  List.iter (fun o ->
      let (s', ob) = tstep i !st (op_of o) in
      let tok = (match ob with
          | ORun b -> Printf.sprintf "%c%d" (Char.lowercase_ascii o.[0]) (if b then 1 else 0)
          | OAdv -> "a"
          | OTick (now, inst) -> Printf.sprintf "T@%d/%d" (int_of_n now) (int_of_n inst)
          | OTimeout now -> Printf.sprintf "O@%d" (int_of_n now)) in
      let tok = if s'.t_overrun then "OVERRUN" else tok in
      st := s';
      out := tok :: !out) ops;
  String.concat " " (List.rev !out)

let run (args : String.t list) =
  match args with
  | ["obs"; path] ->
    List.iter (fun l ->
        match split_ws l with
        | ["TMR"; secs; ops] ->
          print_endline (Printf.sprintf "%s | %s" l (run_case (int_of_string secs) (String.split_on_char ',' ops)))
        | _ -> ()) (read_lines path)
  | _ -> prerr_endline "usage: model c20 obs <cases>"; exit 2
