(* Model-side observations for C15 (same lines as harness/src/c15.rs) *)
open Model
open Rt

(* the name the generated typeenum! table (Gen/EnumTables.v) gives a code point *)
let enum_name tbl names (n : n) : String.t =
  match of_int tbl n with
  | Named i -> str_of_coq (List.nth names (int_of_n i))
  | Ranged (i, k) -> Printf.sprintf "%s(%d)" (str_of_coq (List.nth names (int_of_n i))) (int_of_n k)
  | Catch k -> Printf.sprintf "Unimplemented(%d)" (int_of_n k)
  | Reject -> "REJECT"

let rec int_of_nat = function O -> 0 | S n -> 1 + int_of_nat n

let rec int64_of_pos (p : positive) : Int64.t =
  match p with
  | XH -> 1L
  | XO q -> Int64.shift_left (int64_of_pos q) 1
  | XI q -> Int64.logor (Int64.shift_left (int64_of_pos q) 1) 1L
let u64_s (x : n) : String.t = match x with N0 -> "0" | Npos p -> Printf.sprintf "%Lu" (int64_of_pos p)

let g (name : String.t) (r : String.t res) : String.t =
  match r with
  | Ok s -> Printf.sprintf " %s=%s" name s
  | Panic -> Printf.sprintf " %s=PANIC" name
  | Err -> Printf.sprintf " %s=ERR" name

let ( let* ) r f = match r with Ok x -> f x | Err -> Err | Panic -> Panic

let addr ((v6, a) : bool * n list) : String.t = (if v6 then "6:" else "4:") ^ hex_of_bytes a
let b x = if x then "1" else "0"

let pph (bs : n list) : String.t res =
  let* h = a_pph bs in
  let* pt = pph_peer_type h in
  let* fl = pph_flags h in
  let* d = pph_distinguisher h in
  let* a = pph_address h in
  let* asn = pph_asn h in
  let* id = pph_bgp_id h in
  let* ts = pph_timestamp h in
  let* rib = pph_rib_type h in
  let tss = (match ts with Some (s, ns) -> Printf.sprintf "%d.%d" (int_of_n s) (int_of_n ns) | None -> "MIN") in
  let v6 = flag_set fl (n_of_int 128) in
  let post = flag_set fl (n_of_int 64) in
  let legacy = flag_set fl (n_of_int 32) in
  Ok (Printf.sprintf "%d.%s/%d/%s/%s/%d/%s/%s/%d/%s%s%s%s%s" (int_of_n pt) (enum_name te_bmp_message_PeerType te_bmp_message_PeerType_names pt) (int_of_n fl) (hex_of_bytes d) (addr a) (int_of_n asn)
        (hex_of_bytes id) tss (int_of_n rib) (b (not v6)) (b v6) (b (not post)) (b post) (b legacy))

let upd_s (bs : n list) : String.t res =
  match a_bgp_update bs sc_modern with
  | Ok u -> Ok (Printf.sprintf "OK:%d:%d:%d" (int_of_nat u.u_len) (int_of_nat (range_len u.u_wd)) (int_of_nat (range_len u.u_attr)))
  | Err -> Ok "ERR"
  | Panic -> Panic

let stat_s (s : stat) : String.t =
  match s with
  | StatU32 (t, v) | StatU64 (t, v) -> Printf.sprintf "%d=%s" (int_of_n t) (u64_s v)
  | StatAfiSafi (t, a, s, v) -> Printf.sprintf "%d=%d/%d/%s" (int_of_n t) (int_of_n a) (int_of_n s) (u64_s v)
  | StatOther (t, l) -> Printf.sprintf "%d?%d" (int_of_n t) (int_of_n l)

let tlvs_s (l : (n * n list) list) : String.t =
  Printf.sprintf "[%s]" (String.concat "," (List.map (fun (t, v) ->
      Printf.sprintf "%d/%s:%s" (int_of_n t) (enum_name te_bmp_message_InformationTlvType te_bmp_message_InformationTlvType_names t) (hex_of_bytes v)) l))

let one (bs : n list) : String.t =
  match bmp_from_octets bs with
  | Panic -> "PANIC"
  | Err -> "ERR"
  | Ok k ->
    let head = g "ch" (let* v = a_version bs in let* l = a_msg_length bs in let* t = a_msg_type bs in
                       Ok (Printf.sprintf "%d/%d/%d" (int_of_n v) (int_of_n l) (int_of_n t))) in
    let body = (match k with
        | KRouteMonitoring ->
          "RM" ^ head ^ g "pph" (pph bs) ^ g "upd" (upd_s bs) ^ g "own" (upd_s bs)
        | KStatisticsReport ->
          "SR" ^ head ^ g "pph" (pph bs)
          ^ g "count" (let* c = a_stats_count bs in Ok (string_of_int (int_of_n c)))
          ^ g "stats" (let* l = a_stats bs in Ok (Printf.sprintf "[%s]" (String.concat "," (List.map stat_s l))))
        | KPeerDown ->
          "PD" ^ head ^ g "pph" (pph bs)
          ^ g "reason" (let* r = a_pd_reason bs in Ok (if int_of_n r > 5 then "U" else string_of_int (int_of_n r)))
          ^ g "notif" (let* o = a_pd_notification bs in
                       match o with
                       | None -> Ok "-"
                       | Some nb -> (match n_code nb with
                           | Ok c -> Ok (Printf.sprintf "%s:%d" (hex_of_bytes nb) (int_of_n c))
                           | _ -> Ok (Printf.sprintf "%s:-1" (hex_of_bytes nb))))
          ^ g "fsm" (let* o = a_pd_fsm bs in Ok (match o with Some v -> string_of_int (int_of_n v) | None -> "-"))
        | KPeerUp ->
          "PU" ^ head ^ g "pph" (pph bs)
          ^ g "local" (let* a = a_pu_local_address bs in let* lp = a_pu_local_port bs in let* rp = a_pu_remote_port bs in
                       Ok (Printf.sprintf "%s/%d/%d" (addr a) (int_of_n lp) (int_of_n rp)))
          ^ g "sent" (let* s = a_pu_open_sent bs in Ok (hex_of_bytes s))
          ^ g "rcvd" (let* s = a_pu_open_rcvd bs in Ok (hex_of_bytes s))
          ^ g "both" (let* ((s, r), _) = a_pu_opens bs in Ok (Printf.sprintf "%s/%s" (hex_of_bytes s) (hex_of_bytes r)))
          ^ g "tlvs" (let* l = a_pu_information_tlvs bs in Ok (tlvs_s l))
          ^ " cfg=ok"
        | KInitiation ->
          "IN" ^ head ^ g "tlvs" (let* l = a_init_tlvs bs in Ok (tlvs_s l))
        | KTermination ->
          "TM" ^ head
          ^ g "info" (let* l = a_term_information bs in
                      Ok (Printf.sprintf "[%s]" (String.concat "," (List.map (function
                          | TermString s -> "S:" ^ hex_of_bytes s
                          | TermReason v -> Printf.sprintf "R:%d" (int_of_n v)) l))))
        | KRouteMirroring ->
          "MI" ^ head ^ g "pph" (pph bs)) in
    body ^ Printf.sprintf " fmt=%d" (List.length bs)

let run (args : String.t list) =
  match args with
  | ["obs"; path] ->
    List.iter (fun l ->
        match split_ws l with
        | ["BMP"; h] -> print_endline (Printf.sprintf "BMP %s %s" h (one (bytes_of_hex h)))
        | _ -> ()) (read_lines path)
  | _ -> prerr_endline "usage: model c15 obs <cases>"; exit 2
