(* Model-side observations for C01/C02/C07 (same lines as harness/src/c01.rs) *)
open Model
open Rt

let find_probes = [(1,1);(1,2);(1,4);(1,128);(1,132);(1,133);(2,1);(2,2);(2,4);(2,128);(2,133);(25,65);(25,70);(1,99)]

let rec int_of_nat = function O -> 0 | S n -> 1 + int_of_nat n
let rec nat_of_int i = if i <= 0 then O else S (nat_of_int (i - 1))

let cfg_of (four : bool) (ap : String.t) : sconfig =
  let m = if ap = "-" then [] else
      List.map (fun e ->
          match String.split_on_char ':' e with
          | [fam; d] ->
            (match String.split_on_char '.' fam with
             | [a; s] -> ((n_of_int (int_of_string a), n_of_int (int_of_string s)), n_of_int (int_of_string d))
             | _ -> failwith "fam")
          | _ -> failwith "ap") (String.split_on_char ',' ap) in
  (* add_addpath = map insert: later entries win; the model map is newest-first *)
  { sc_four = four; sc_addpath = List.rev m }

let res_s (f : 'a -> String.t) (r : 'a res) : String.t = match r with Ok v -> f v | Err -> "E" | Panic -> "PANIC"

let nlri_hex (n : nlri) : String.t =
  match compose_nlri n with
  | Ok c -> let (a, s) = fam_code n.n_fam in
    Printf.sprintf "%d.%d%s~%s" (int_of_n a) (int_of_n s) (match n.n_pathid with Some _ -> "+" | None -> "") (hex_of_bytes c)
  | _ -> "PANIC"
let item_s (r : nlri res) : String.t = match r with Ok n -> nlri_hex n | Err -> "E" | Panic -> "PANIC"
let items_s (l : nlri res list) : String.t =
  if List.exists (fun r -> r = Panic) l then "PANIC"
  else Printf.sprintf "%d[%s]" (List.length l) (String.concat "," (List.map item_s l))
let iter_s (o : nlri res list option) : String.t = match o with Some l -> items_s l | None -> "FUEL"

let fam_s (a, s) = Printf.sprintf "%d.%d" (int_of_n a) (int_of_n s)

let be_hex k (v : n) : String.t = hex_of_bytes (be (nat_of_int k) v)

let comm_s k (r : n list option res) : String.t =
  res_s (function None -> "-" | Some l -> Printf.sprintf "%d[%s]" (List.length l) (String.concat "," (List.map (be_hex k) l))) r

let kind_w = function WTyped _ -> "T" | WUnimpl _ -> "U" | WInvalid _ -> "I"

let nh_s = function
  | NhUni a -> "uni:" ^ hex_of_bytes a
  | NhLL (a, c) -> Printf.sprintf "ll:%s:%s" (hex_of_bytes a) (hex_of_bytes c)
  | NhVpn (rd, a) -> Printf.sprintf "vpn:%s:%s" (hex_of_bytes rd) (hex_of_bytes a)
  | NhEmpty -> "empty"

let observe id four ap (b : n list) =
  let cfg = cfg_of four ap in
  match parse_update cfg b with
  | Panic -> Printf.printf "U %s parse=PANIC\n" id
  | Err -> Printf.printf "U %s parse=E\n" id
  | Ok u ->
    let p = u.u_ppi in
    let bit x = if x then 1 else 0 in
    Printf.printf "U %s parse=ok len=%d wd=%d al=%d ppi=%d%d%d%d\n" id (int_of_nat (a_length u))
      (int_of_nat (a_withdrawn_routes_len u)) (int_of_nat (a_total_path_attribute_len u))
      (bit p.pp_four) (bit p.pp_conv) (bit p.pp_reach) (bit p.pp_unreach);
    let attrs = a_path_attributes b u in
    let attr_s = function
      | Err -> "E" | Panic -> "PANIC"
      | Ok w ->
        let fl = match wattr_flags w with Ok f -> int_of_n f | _ -> -1 in
        let o = match to_owned w with Ok pa -> C04.describe_owned pa | Err -> "E" | Panic -> "PANIC" in
        Printf.sprintf "%s:%d:%d:%d:%s" (kind_w w) fl (int_of_n (wattr_code w)) (C04.wlen w) o in
    Printf.printf "U %s attrs %d[%s]\n" id (List.length attrs) (String.concat " " (List.map attr_s attrs));
    let opt_n = function None -> "-" | Some v -> string_of_int (int_of_n v) in
    let hops_s = function None -> "none" | Some h -> C13.hops_s h in
    let origin = res_s opt_n (a_origin b u) in
    let aspath = res_s hops_s (a_aspath b u) in
    let as4path = res_s hops_s (a_as4path b u) in
    let nh = res_s (function None -> "-" | Some v -> "uni:" ^ be_hex 4 v) (a_conventional_next_hop b u) in
    let med = res_s opt_n (a_u32 b u (n_of_int 4)) in
    let lp = res_s opt_n (a_u32 b u (n_of_int 5)) in
    let atomic = bit (a_atomic b u) in
    let agg = res_s (function None -> "-" | Some (asn, addr) -> Printf.sprintf "%d:%s" (int_of_n asn) (be_hex 4 addr)) (a_aggregator b u) in
    let c1 = a_communities b u (n_of_int 8) (nat_of_int 4) and c2 = a_communities b u (n_of_int 16) (nat_of_int 8)
    and c3 = a_communities b u (n_of_int 25) (nat_of_int 20) and c4 = a_communities b u (n_of_int 32) (nat_of_int 12) in
    let allc =
      let cnt = function Ok None -> Some 0 | Ok (Some l) -> Some (List.length l) | _ -> None in
      match cnt c1, cnt c2, cnt c3, cnt c4 with
      | Some a, Some b', Some c, Some d -> let t = a + b' + c + d in if t = 0 then "-" else string_of_int t
      | _ -> if List.exists (fun c -> c = Panic) [c1; c2; c3; c4] then "PANIC" else "E" in
    Printf.printf "U %s typed origin=%s aspath=%s as4path=%s nh=%s med=%s lp=%s atomic=%d agg=%s comm=%s ext=%s v6ext=%s large=%s allc=%s\n"
      id origin aspath as4path nh med lp atomic agg (comm_s 4 c1) (comm_s 8 c2) (comm_s 20 c3) (comm_s 12 c4) allc;
    let convw = iter_s (a_conv_withdrawals b u) and conva = iter_s (a_conv_announcements b u) in
    let mp_s ap = res_s (function
        | None -> "none"
        | Some (fam, it) ->
          let plus = match fam_of fam with Some _ -> (if ap then "+" else "") | None -> "" in
          Printf.sprintf "%s%s:%s" (fam_s fam) plus (iter_s it)) in
    let mpw = mp_s p.pp_unreach (a_mp_withdrawals b u) and mpa = mp_s p.pp_reach (a_mp_announcements b u) in
    let w = res_s items_s (a_withdrawals b u) and a = res_s items_s (a_announcements b u) in
    let vec_s = res_s (fun l -> Printf.sprintf "%d[%s]" (List.length l) (String.concat "," (List.map nlri_hex l))) in
    Printf.printf "U %s nlri convw=%s conva=%s mpw=%s mpa=%s w=%s a=%s wvec=%s avec=%s\n" id convw conva mpw mpa w a
      (vec_s (a_withdrawals_vec b u)) (vec_s (a_announcements_vec b u));
    let conv_t r = if int_of_nat (range_len r) > 0 then "1.1" ^ (if p.pp_conv then "+" else "") else "-" in
    let mp_t ap = function
      | Ok (Some (fam, _)) -> fam_s fam ^ (match fam_of fam with Some _ -> (if ap then "+" else "") | None -> "")
      | _ -> "-" in
    let fams = Printf.sprintf "%s,%s,%s,%s" (conv_t u.u_wd) (conv_t u.u_ann) (mp_t p.pp_unreach (a_mp_withdrawals b u))
        (mp_t p.pp_reach (a_mp_announcements b u)) in
    let eor = match a_is_eor b u with Some f -> fam_s f | None -> "-" in
    let mpnh = res_s (function None -> "-" | Some (_, nh) -> nh_s nh) (a_mp_next_hop b u) in
    let pamap = match a_pamap b u with
      | Ok m ->
        let codes = String.concat "." (List.map (fun (c, _) -> string_of_int (int_of_n c)) m) in
        (match pamap_bytes_len m with Ok n -> Printf.sprintf "%s:%d" codes (int_of_nat n) | _ -> "PANIC")
      | Err -> "E" | Panic -> "PANIC" in
    let fnh = String.concat "," (List.map (fun (a, sf) ->
        let r = match a_find_next_hop b u (n_of_int a, n_of_int sf) with
          | Ok (FConv v) -> "uni:" ^ be_hex 4 v | Ok (FMp nh) -> nh_s nh | Err -> "E" | Panic -> "PANIC" in
        Printf.sprintf "%d.%d:%s" a sf r) find_probes) in
    Printf.printf "U %s misc fams=%s eor=%s mpnh=%s pamap=%s fnh=%s hasconv=%d hasmp=%d\n" id fams eor mpnh pamap fnh
      (if a_has_conventional_nlri u then 1 else 0) (if a_has_mp_nlri b u then 1 else 0)

let run (args : String.t list) =
  match args with
  | [file] ->
    List.iter (fun l ->
        match split_ws l with
        | ["UPD"; id; four; ap; h] -> observe id (four = "1") ap (bytes_of_hex h)
        | _ -> ()) (read_lines file)
  | _ -> prerr_endline "usage: model c01 <cases>"; exit 2
