(* shared: hop-path tokens -> model hops *)
open Model
open Rt

let parse_hops (s : String.t) : hop0 list =
  if s = "-" then [] else
  List.map (fun t ->
      if t.[0] = 'a' then HAsn0 (n_of_int (int_of_string (String.sub t 1 (String.length t - 1))))
      else begin
        match String.split_on_char ':' (String.sub t 1 (String.length t - 1)) with
        | [ty; lst] ->
          let asns = List.filter (fun x -> x <> "") (String.split_on_char ',' lst) in
          HSeg (n_of_int (int_of_string ty), List.map (fun x -> n_of_int (int_of_string x)) asns)
        | _ -> failwith "hop token"
      end) (String.split_on_char ';' s)

