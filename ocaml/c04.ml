(* Model-side observations for C04/C07 (same lines as harness/src/c04.rs) *)
open Model
open Rt

let rec int_of_nat = function O -> 0 | S n -> 1 + int_of_nat n
let rec nat_of_int i = if i <= 0 then O else S (nat_of_int (i - 1))

(* big numbers (12- and 20-octet communities) are built from hex octets with the model's own unbe *)
let n_of_hex (h : String.t) : n = unbe (bytes_of_hex h)

let u32s s = if s = "-" then [] else List.map (fun x -> n_of_int (int_of_string x)) (String.split_on_char ',' s)
let hexes s = if s = "-" then [] else List.map n_of_hex (String.split_on_char ',' s)

let build (code : int) (a : String.t list) : pattr =
  let n i = n_of_int (int_of_string (List.nth a i)) in
  let c = n_of_int code in
  match code with
  | 1 -> AU8 (c, n 0)
  | 3 | 4 | 5 | 9 | 20 | 35 -> AU32 (c, n 0)
  | 6 -> AEmpty c
  | 7 | 18 -> AAgg (c, n 0, n 1)
  | 8 | 10 -> AList (c, nat_of_int 4, u32s (List.nth a 0))
  | 16 -> AList (c, nat_of_int 8, hexes (List.nth a 0))
  | 25 -> AList (c, nat_of_int 20, hexes (List.nth a 0))
  | 32 -> AList (c, nat_of_int 12, hexes (List.nth a 0))
  | 2 | 17 -> APath (c, M_hops.parse_hops (List.nth a 0))
  | 21 -> ALimit (n 0, n 1)
  | 128 -> AAttrSet (n 0, bytes_of_hex (List.nth a 1))
  | 255 -> ARaw (c, bytes_of_hex (List.nth a 0))
  | _ -> failwith "code"

let kind_w = function WTyped _ -> "T" | WUnimpl _ -> "U" | WInvalid _ -> "I"
let kind_o = function AUnimpl _ -> "U" | AInvalid _ -> "I" | _ -> "T"

let wlen (w : wattr) : int =
  match w with
  | WTyped (_, _, tlv) ->
    (match tlv with f :: _ -> List.length tlv - (if has_ext f then 4 else 3) | [] -> 0)
  | WUnimpl (f, _, tlv) -> List.length tlv - (if has_ext f then 4 else 3)
  | WInvalid (_, _, v) -> List.length v

let describe_owned (pa : pattr) : String.t =
  let c = match compose pa with Ok b -> hex_of_bytes b | _ -> "PANIC" in
  let cl = match compose_len0 pa with Ok n -> string_of_int (int_of_nat n) | _ -> "PANIC" in
  Printf.sprintf "%s:%d:%s:%s" (kind_o pa) (int_of_n (attr_code pa)) c cl

let run (args : String.t list) =
  match args with
  | [file] ->
    List.iter (fun l ->
        match split_ws l with
        | "ATTR" :: id :: code :: rest ->
          let pa = build (int_of_string code) rest in
          let cl = match compose_len0 pa with Ok n -> string_of_int (int_of_nat n) | _ -> "PANIC" in
          (match compose pa with
           | Ok bytes ->
             let back = match wire_attr_parse true (parser_of bytes) with
               | Ok (w, p) ->
                 let fl = match wattr_flags w with Ok f -> int_of_n f | _ -> -1 in
                 let oe = match to_owned w with Ok o -> if o = pa then 1 else 0 | _ -> 2 in
                 Printf.sprintf "parsed=%s flags=%d code=%d len=%d owned_eq=%d more=%d" (kind_w w) fl (int_of_n (wattr_code w)) (wlen w) oe
                   (if p.p_rest = [] then 0 else 1)
               | Err -> "parsed=E more=0"
               | Panic -> "parsed=PANIC more=0" in
             Printf.printf "ATTR %s comp=%s clen=%s %s\n" id (hex_of_bytes bytes) cl back
           | _ -> Printf.printf "ATTR %s comp=PANIC clen=%s\n" id cl)
        | ["RAW"; id; four; h] ->
          let bytes = bytes_of_hex h in
          if bytes = [] then Printf.printf "RAW %s NONE\n" id else
          (match wire_attr_parse (four = "1") (parser_of bytes) with
           | Ok (w, _) ->
             let fl = match wattr_flags w with Ok f -> int_of_n f | _ -> -1 in
             let os = match to_owned w with Ok pa -> describe_owned pa | Err -> "E" | Panic -> "PANIC" in
             Printf.printf "RAW %s %s flags=%d code=%d len=%d owned=%s\n" id (kind_w w) fl (int_of_n (wattr_code w)) (wlen w) os
           | Err -> Printf.printf "RAW %s E\n" id
           | Panic -> Printf.printf "RAW %s PANIC\n" id)
        | _ -> ()) (read_lines file)
  | _ -> prerr_endline "usage: model c04 <cases>"; exit 2
