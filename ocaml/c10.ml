(* Model-side observations for C10/C11 (same lines as harness/src/c10.rs) *)
open Model
open Rt

let opt s = if s = "-" then None else Some (n_of_int (int_of_string s))

let parse_route (s : String.t) : route =
  match split_ws s with
  | [dop; ibgp; la; id; peer; origin; path; lp; med; og; cl; rest] ->
    let peer =
      let v = n_of_int (int_of_string (String.sub peer 2 (String.length peer - 2))) in
      (peer.[0] = '6', v) in
    let path =
      if path = "-" then None
      else if path = "e" then Some []
      else Some (List.map (fun t ->
          if t.[0] = 'a' then HAsn (n_of_int (int_of_string (String.sub t 1 (String.length t - 1))))
          else if t = "s" then HSet else HOther) (String.split_on_char '.' path)) in
    { r_dop = opt dop; r_ibgp = (ibgp = "1"); r_local_asn = n_of_int (int_of_string la);
      r_bgp_id = n_of_int (int_of_string id); r_peer = peer; r_origin = opt origin; r_path = path;
      r_local_pref = opt lp; r_med = opt med; r_originator = opt og; r_cluster_len = opt cl;
      r_rest = n_of_int (int_of_string rest) }
  | _ -> failwith ("route: " ^ s)

let ord_s = function Lt -> "Lt" | Eq -> "Eq" | Gt -> "Gt"
let ix = function None -> "-" | Some i -> string_of_int i

let rec nat_to_int = function O -> 0 | S n -> 1 + nat_to_int n

let run (args : String.t list) =
  match args with
  | [file] ->
    List.iter (fun l ->
        match String.index_opt l ' ' with
        | None -> ()
        | Some _ ->
          let parts = String.split_on_char ' ' l in
          (match parts with
           | kind :: id :: strat :: rest ->
             let rest = String.concat " " rest in
             let routes = List.map parse_route
                 (List.filter (fun s -> String.trim s <> "") (String.split_on_char '|' rest)) in
             let s = if strat = "R" then Rfc4271 else SkipMed in
             if kind = "PAIR" then begin
               match routes with
               | [a; b] ->
                 let ea = eligible a and eb = eligible b in
                 let e = Printf.sprintf "elig=%d%d" (if ea then 1 else 0) (if eb then 1 else 0) in
                 if ea && eb then begin
                   match cmp_route s a b with
                   | Ok c -> Printf.printf "PAIR %s %s cmp=%s eq=%d\n" id e (ord_s c) (if c = Eq then 1 else 0)
                   | Err -> Printf.printf "PAIR %s %s cmp=E eq=E\n" id e
                   | Panic -> Printf.printf "PAIR %s %s cmp=PANIC eq=PANIC\n" id e
                 end else Printf.printf "PAIR %s %s cmp=NA eq=NA\n" id e
               | _ -> ()
             end else if kind = "LIST" then begin
               if not (List.for_all eligible routes) then Printf.printf "LIST %s INELIGIBLE\n" id
               else begin
                 (* items carry their position so that the returned route can be named *)
                 let items = List.mapi (fun i r -> (i, r)) routes in
                 let lt a b = route_lt s (snd a) (snd b) in
                 let ceq a b = content_eqb (snd a) (snd b) in
                 let b = best lt items in
                 let (bb1, bb2) = best_backup lt ceq items in
                 let (p1, p2) = best_backup_idx lt ceq items in
                 let (g1, g2) = best_backup_generic lt items in
                 let fi = function None -> None | Some (i, _) -> Some i in
                 let fp = function None -> None | Some (i, _) -> Some (nat_to_int i) in
                 Printf.printf "LIST %s best=%s bb=%s,%s pos=%s,%s gen=%s,%s\n" id (ix (fi b))
                   (ix (fi bb1)) (ix (fi bb2)) (ix (fp p1)) (ix (fp p2)) (ix (fi g1)) (ix (fi g2))
               end
             end
           | _ -> ())) (read_lines file)
  | _ -> prerr_endline "usage: model c10 <cases>"; exit 2
