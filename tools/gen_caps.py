"""Translator: the per-type content rules of `Capability::parse` (open.rs) -> coq/Gen/CapRules.v

Every match arm body is recognised by the hash of its normalised text (pins.json, key cap_arms: {hash: rule}); the arm's
patterns (CapabilityType variants) are mapped to code points through the typeenum! table of CapabilityType.  The framing part
of the function (type, length, bounded value parser, final slice) and the other OPEN functions Model/OpenMsg.v mirrors are
pinned by hash (key open_pinned)."""
import os
import re
import sys
import hashlib

sys.path.insert(0, os.path.dirname(__file__))
from rsparse import TieError, strip_comments, norm, find_fn, find_item, match_close, match_arms, find_match, split_top, parse_int


def sha(s):
    return hashlib.sha256(s.encode()).hexdigest()[:16]


RULES = ['RNone', 'RLenEq0', 'RLenEq1U8', 'RLenEq4U32', 'RFixed4', 'ROrf', 'RRepeat6', 'RRepeat4', 'RRepeat7', 'RHead2Repeat4',
         'RBytes', 'RMultisession', 'RAddPath', 'RFqdn', 'RLenPrefixed', 'RNever']


def gen(repo, pins):
    with open(os.path.join(repo, 'src/bgp/message/open.rs')) as f:
        src = strip_comments(f.read())
    src = re.sub(r'warn!\((?:[^()]|\([^()]*\))*\)\s*;', '', src)
    # CapabilityType code points
    m = re.search(r'typeenum!\(\s*CapabilityType\s*,\s*u8\s*,\s*\{', src)
    if not m:
        raise TieError('typeenum!(CapabilityType ..) not found')
    o = src.index('{', m.start())
    c = match_close(src, o)
    codes = {}
    for ent in split_top(src[o + 1:c]):
        ent = ent.strip()
        if not ent:
            continue
        k, v = [x.strip() for x in ent.split('=>')]
        codes[v] = parse_int(k)
    # Capability::parse
    mi = re.search(r'impl<Octs:\s*Octets>\s*Capability<Octs>\s*\{\s*fn\s+parse<', src)
    if not mi:
        raise TieError('impl Capability { fn parse } not found')
    body, off = find_fn(src[mi.start():], 'parse')
    scrut, mbody, mend = find_match(body)
    if norm(scrut) != 'typ.into()':
        raise TieError('Capability::parse: match scrutinee changed: %r' % scrut)
    framing = norm(body[:body.index('match')] + '#MATCH#' + body[mend:])
    arms = match_arms(mbody)
    known = pins.get('cap_arms', {})
    learned = {}
    table = {}
    catch = None
    for pat, expr in arms:
        h = sha(norm(expr))
        learned[h] = norm(expr)[:70]
        if pins.get('_learn'):
            rule = 'RNone'
        else:
            if h not in known:
                raise TieError('Capability::parse: unrecognised arm for %s (hash %s): %s' % (norm(pat), h, norm(expr)[:100]))
            rule = known[h]
        for one in pat.split('|'):
            one = one.strip()
            mm = re.fullmatch(r'CapabilityType::(\w+)(\(\w+\))?', one)
            if not mm:
                raise TieError('Capability::parse: unrecognised pattern %r' % one)
            name = mm.group(1)
            if name == 'Unimplemented':
                catch = rule
            elif name in codes:
                table[codes[name]] = (name, rule)
            else:
                raise TieError('Capability::parse: arm for unknown variant %s' % name)
    missing = [n for n in codes if codes[n] not in table]
    if missing:
        raise TieError('Capability::parse: no arm for %s' % missing)
    if catch is None:
        raise TieError('Capability::parse: no arm for Unimplemented')
    pinned = {'cap_parse_framing': sha(framing)}
    for name, which in (('check', 0), ('check', 1), ('from_octets', 0), ('parameters_iter', 0), ('capabilities', 0), ('my_asn', 0),
                        ('_my_asn', 0), ('four_octet_capable', 0), ('addpath_families_vec', 0), ('multiprotocol_ids', 0),
                        ('get_software_version', 0), ('version', 0), ('holdtime', 0), ('identifier', 0), ('opt_parm_len', 0),
                        ('finish', 0), ('from_target', 0), ('set_asn', 0), ('four_octet_capable', 1), ('add_mp', 0), ('add_addpath', 0)):
        try:
            pinned['open.%s#%d' % (name, which)] = sha(norm(find_fn(src, name, which=which)[0]))
        except TieError:
            raise
    _, it, _ = find_item(src, r"impl<'a,\s*Ref:\s*Octets>\s*Iterator\s+for\s+ParametersParser")
    pinned['parameters_parser_next'] = sha(norm(it))
    _, it, _ = find_item(src, r"impl<'a,\s*Ref:\s*Octets>\s*Iterator\s+for\s+CapabilitiesIter")
    pinned['capabilities_iter_next'] = sha(norm(it))
    for fname, fns in (('notification.rs', ['from_octets', 'check', 'code', 'details', 'data', 'from_target']),
                       ('keepalive.rs', ['from_octets', 'check', 'from_target']), ('routerefresh.rs', ['from_octets'])):
        with open(os.path.join(repo, 'src/bgp/message', fname)) as f:
            s2 = strip_comments(f.read())
        for fn in fns:
            pinned['%s.%s' % (fname, fn)] = sha(norm(find_fn(s2, fn)[0]))
    with open(os.path.join(repo, 'src/bgp/message/mod.rs')) as f:
        s3 = strip_comments(f.read())
    s3 = re.sub(r'debug!\((?:[^()]|\([^()]*\))*\)\s*;', '', s3)
    pinned['mod.from_octets'] = sha(norm(find_fn(s3, 'from_octets')[0]))
    mh = re.search(r'impl<Octs:\s*Octets>\s*Header<Octs>\s*\{\s*pub\s+fn\s+check', s3)
    pinned['header_check'] = sha(norm(find_fn(s3[mh.start():], 'check')[0]))
    mh = re.search(r'impl<Octs:\s*Octets>\s*Header<Octs>\s*\{\s*fn\s+parse', s3)
    pinned['header_parse'] = sha(norm(find_fn(s3[mh.start():], 'parse')[0]))
    exp = pins.get('open_pinned', {})
    if not pins.get('_learn'):
        for k, v in pinned.items():
            if exp.get(k) != v:
                raise TieError('%s changed (hash %s, pinned %s); Model/OpenMsg.v mirrors the pinned text' % (k, v, exp.get(k)))
    info = {'arms': learned, 'pinned': pinned, 'table': {str(k): v for k, v in sorted(table.items())}, 'catch_all': catch}
    lines = ['(* GENERATED by tools/gen_caps.py from /repo - do not edit. *)',
             'From Coq Require Import List NArith.', 'Import ListNotations.', 'Open Scope N_scope.',
             '(* content rule of Capability::parse per capability type *)',
             'Inductive caprule := %s.' % ' | '.join(RULES),
             '(* capability code => rule, from the arms of Capability::parse and the CapabilityType code points *)',
             'Definition cap_rules : list (N * caprule) := [%s].' % ';\n  '.join('(%d, %s)' % (k, table[k][1]) for k in sorted(table)),
             'Definition cap_rule_default : caprule := %s.' % catch, '']
    return '\n'.join(lines), info


if __name__ == '__main__':
    import json
    pp = os.path.join(os.path.dirname(__file__), 'pins.json')
    pins = json.load(open(pp))
    if '--learn' in sys.argv:
        pins['_learn'] = True
    t, info = gen('/repo', pins)
    print(t)
    print(json.dumps(info, indent=1))
    if '--learn' in sys.argv:
        del pins['_learn']
        pins['open_pinned'] = info['pinned']
        pins.setdefault('cap_arms', {})
        json.dump(pins, open(pp, 'w'), indent=1)
