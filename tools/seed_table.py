#!/usr/bin/env python3
"""Regenerates the table of seeded changes in DESIGN.md (section 0.5) from seeded/*/meta.json."""
import json, glob, os, re
root = os.path.dirname(os.path.dirname(os.path.abspath(__file__)))
rows = []
for m in sorted(glob.glob(os.path.join(root, 'seeded', '*', 'meta.json'))):
    d = json.load(open(m))
    name = os.path.basename(os.path.dirname(m))
    ch = d['change'].replace('|', '/').replace('\n', ' ')
    if len(ch) > 170:
        ch = ch[:167] + '...'
    by = d.get('caught_by', '').replace('|', '/').replace('\n', ' ')
    rows.append('| %s | %s | %s |' % (name, ch, by))
p = os.path.join(root, 'DESIGN.md')
s = open(p).read()
head = '| seed | change | caught by |\n|---|---|---|\n'
i = s.index(head)
j = i + len(head)
while s[j] == '|':
    j = s.index('\n', j) + 1
s = s[:i] + head + '\n'.join(rows) + '\n' + s[j:]
open(p, 'w').write(s)
print(len(rows), 'rows')
