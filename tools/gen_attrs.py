"""Translator: path attribute table (type code, canonical flags, validate rule, value_len rule)
from src/bgp/path_attributes.rs  ->  coq/Gen/AttrRules.v"""
import os
import re
import sys

sys.path.insert(0, os.path.dirname(__file__))
from rsparse import TieError, strip_comments, norm, find_fn, find_item, match_close, split_top, parse_int
import gen_enums


def impl_attribute_blocks(src):
    """{type path suffix: body}"""
    out = {}
    for m in re.finditer(r'impl\s+Attribute\s+for\s+([\w:]+)\s*\{', src):
        o = m.end() - 1
        c = match_close(src, o)
        out[m.group(1).split('::')[-1]] = src[o + 1:c]
    return out


def classify_validate(body):
    n = re.sub(r'"[^"]*"', '"_"', norm(body))
    m = re.fullmatch(r'check_len_exact!\(parser,(\d+),"_"\)', n)
    if m:
        return 'VExact %s' % m.group(1)
    m = re.fullmatch(r'if parser\.remaining\(\)%(\d+)!=0\{return Err\(ParseError::form_error\("_"\)\);\}Ok\(\(\)\)', n)
    if m:
        return 'VMod %s' % m.group(1)
    m = re.fullmatch(r'if parser\.remaining\(\)<(\d+)\{return Err\(ParseError::form_error\("_"\)\)\}Ok\(\(\)\)', n)
    if m:
        return 'VMin %s' % m.group(1)
    m = re.fullmatch(r'if pdu_parse_info\.four_octet_enabled\(\)\{check_len_exact!\(parser,(\d+),"_"\)\?;\}else\{check_len_exact!\(parser,(\d+),"_"\)\?;\}Ok\(\(\)\)', n)
    if m:
        return 'VAgg %s %s' % (m.group(1), m.group(2))
    walk = ('while parser.remaining()>0{let segment_type=parser.parse_u8()?;if!(1..=4).contains(&segment_type)'
            '{return Err(ParseError::form_error("_"));}let len=usize::from(parser.parse_u8()?);'
            'parser.advance(len*%s)?;}Ok(())')
    if n == 'let asn_size=if pdu_parse_info.four_octet_enabled(){4}else{2};' + walk % 'asn_size':
        return 'VPathSession'
    if n == walk % '4':
        return 'VPathFixed4'
    if n == 'Ok(())':
        return 'VAny'
    raise TieError('unrecognised validate body: %s' % n[:200])


def classify_value_len(body):
    n = norm(body)
    if re.fullmatch(r'\d+', n):
        return 'LConst %s' % n
    m = re.fullmatch(r'self\.(?:communities\(\)|communities|cluster_ids)\.len\(\)\*(\d+)', n)
    if m:
        return 'LMul %s' % m.group(1)
    m = re.fullmatch(r'(\d+)\+self\.attributes\.len\(\)', n)
    if m:
        return 'LPlus %s' % m.group(1)
    if n == 'self.raw.len()':
        return 'LRaw'
    if n in ('self.to_as_path::<Vec<u8>>().unwrap().into_inner().len()', 'self.0.to_as_path::<Vec<u8>>().unwrap().into_inner().len()'):
        return 'LAsPath'
    raise TieError('unrecognised value_len body: %s' % n[:160])


def gen(repo, pins):
    with open(os.path.join(repo, 'src/bgp/path_attributes.rs')) as f:
        src = strip_comments(f.read())
    rows = gen_enums.parse_path_attributes(src)
    # Flags constants
    _, fbody, _ = find_item(src, r'impl\s+Flags\b')
    consts = {}
    for m in re.finditer(r'const\s+(\w+)\s*:\s*u8\s*=\s*(0b[01_]+|0x[0-9a-fA-F_]+|\d+)\s*;', fbody):
        consts[m.group(1)] = parse_int(m.group(2))
    for k in ('OPT_NON_TRANS', 'OPT_TRANS', 'WELLKNOWN', 'EXTENDED_LEN', 'PARTIAL'):
        if k not in consts:
            raise TieError('Flags::%s not found' % k)
    blocks = impl_attribute_blocks(src)
    out_rows = []
    info_rows = []
    for code, name, ty, flags in rows:
        tname = ty.split('::')[-1]
        if tname not in blocks:
            raise TieError('no `impl Attribute for %s`' % tname)
        b = blocks[tname]
        v = classify_validate(find_fn(b, 'validate')[0])
        l = classify_value_len(find_fn(b, 'value_len')[0])
        fm = re.fullmatch(r'Flags::(\w+)', flags)
        if not fm or fm.group(1) not in consts:
            raise TieError('flags expression %r' % flags)
        out_rows.append('(%d, (%d, %s, %s))' % (code, consts[fm.group(1)], v if ' ' not in v else '(%s)' % v, l if ' ' not in l else '(%s)' % l))
        info_rows.append((code, name, consts[fm.group(1)], v, l))
    # the Attribute trait's default header logic and the parse entry are pinned
    import hashlib
    def sha(s):
        return hashlib.sha256(s.encode()).hexdigest()[:16]
    _, tbody, _ = find_item(src, r'pub\s+trait\s+Attribute\s*:\s*AttributeHeader\s*\+\s*Clone')
    macro = gen_enums.macro_def(src, 'path_attributes')
    i0 = macro.index('fn parse(parser:&mut') if 'fn parse(parser:&mut' in macro else macro.index('fn parse(')
    pinned = {
        'attribute_trait_defaults': sha(norm(tbody[:tbody.index('fn compose_value')])),
        'wireformat_parse': sha(norm(macro[macro.index('impl<\'a, Octs: Octets> WireformatPathAttribute'):macro.index('impl<\'a, Octs: Octets> AsRef<[u8]> for WireformatPathAttribute')])),
        'pathattribute_compose': sha(norm(macro[macro.index('impl PathAttribute {'):macro.index('impl From<$data> for PathAttribute')])),
        'unimplemented_compose': sha(norm(src[src.index('impl UnimplementedPathAttribute {\n    fn compose'):src.index('#[cfg(test)]')])) if 'impl UnimplementedPathAttribute {\n    fn compose' in src else sha(norm(find_fn(src[src.rindex('impl UnimplementedPathAttribute'):], 'compose')[0])),
        'unimplemented_compose_len': sha(norm(find_fn(src, 'compose_len', which=1)[0])),
    }
    exp = pins.get('attr_pinned', {})
    for k, v in pinned.items():
        if k in exp and exp[k] != v:
            raise TieError('path_attributes.rs: %s changed (hash %s, pinned %s); Model/Attr.v mirrors the pinned text' % (k, v, exp[k]))
    lines = ['(* GENERATED by tools/gen_attrs.py from /repo - do not edit. *)',
             'From Coq Require Import List NArith.', 'Import ListNotations.', 'Open Scope N_scope.',
             'Inductive vrule := VExact (k : nat) | VMod (k : nat) | VMin (k : nat) | VAgg (k4 k2 : nat) | VPathSession | VPathFixed4 | VAny.',
             'Inductive lrule := LConst (k : nat) | LMul (k : nat) | LPlus (k : nat) | LRaw | LAsPath.',
             '(* type code => (canonical flags, validate rule, value_len rule), from path_attributes!(..) and each `impl Attribute` *)',
             'Definition attr_table : list (N * (N * vrule * lrule)) := [%s].' % ';\n  '.join(out_rows),
             'Definition flag_extended : N := %d.' % consts['EXTENDED_LEN'],
             'Definition flag_partial : N := %d.' % consts['PARTIAL'], '']
    return '\n'.join(lines), {'rows': info_rows, 'pinned': pinned}


if __name__ == '__main__':
    import json
    t, info = gen(sys.argv[1] if len(sys.argv) > 1 else '/repo', {})
    print(t)
    print(json.dumps(info['pinned']))
