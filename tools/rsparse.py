"""Tiny Rust source utilities for the translator (tokenizer level, no full parser).

Everything here either recognises a shape exactly or raises TieError: an
unrecognised shape is a *broken tie*, never silently skipped.
"""
import re


class TieError(Exception):
    pass


def strip_comments(src: str) -> str:
    """Remove // and /* */ comments (nesting aware), keep string literals and
    line structure (newlines are preserved so line numbers stay meaningful)."""
    out = []
    i = 0
    n = len(src)
    while i < n:
        c = src[i]
        if c == '/' and i + 1 < n and src[i + 1] == '/':
            while i < n and src[i] != '\n':
                i += 1
            continue
        if c == '/' and i + 1 < n and src[i + 1] == '*':
            depth = 1
            i += 2
            while i < n and depth > 0:
                if src[i] == '/' and i + 1 < n and src[i + 1] == '*':
                    depth += 1
                    i += 2
                elif src[i] == '*' and i + 1 < n and src[i + 1] == '/':
                    depth -= 1
                    i += 2
                else:
                    if src[i] == '\n':
                        out.append('\n')
                    i += 1
            continue
        if c == '"':
            j = i + 1
            while j < n and src[j] != '"':
                if src[j] == '\\':
                    j += 1
                j += 1
            out.append(src[i:j + 1])
            i = j + 1
            continue
        if c == "'":
            # char literal or lifetime
            m = re.match(r"'(\\.|[^\\'])'", src[i:i + 4])
            if m:
                out.append(m.group(0))
                i += len(m.group(0))
                continue
        out.append(c)
        i += 1
    return ''.join(out)


OPEN = {'(': ')', '[': ']', '{': '}'}
CLOSE = {v: k for k, v in OPEN.items()}


def match_close(src: str, i: int) -> int:
    """src[i] is an opening bracket; return index of its matching close."""
    assert src[i] in OPEN, src[i:i + 20]
    stack = [src[i]]
    j = i + 1
    n = len(src)
    while j < n:
        c = src[j]
        if c == '"':
            j += 1
            while j < n and src[j] != '"':
                if src[j] == '\\':
                    j += 1
                j += 1
        elif c == "'":
            m = re.match(r"'(\\.|[^\\'])'", src[j:j + 4])
            if m:
                j += len(m.group(0)) - 1
        elif c in OPEN:
            stack.append(c)
        elif c in CLOSE:
            if not stack or stack[-1] != CLOSE[c]:
                raise TieError('unbalanced brackets near offset %d' % j)
            stack.pop()
            if not stack:
                return j
        j += 1
    raise TieError('unclosed bracket at offset %d' % i)


def line_of(src: str, off: int) -> int:
    return src.count('\n', 0, off) + 1


def split_top(s: str, sep: str = ','):
    """Split s on sep at bracket depth 0."""
    parts = []
    depth = 0
    cur = []
    i = 0
    n = len(s)
    while i < n:
        c = s[i]
        if c == '"':
            j = i + 1
            while j < n and s[j] != '"':
                if s[j] == '\\':
                    j += 1
                j += 1
            cur.append(s[i:j + 1])
            i = j + 1
            continue
        if c in OPEN:
            depth += 1
        elif c in CLOSE:
            depth -= 1
        if depth == 0 and s.startswith(sep, i):
            parts.append(''.join(cur))
            cur = []
            i += len(sep)
            continue
        cur.append(c)
        i += 1
    last = ''.join(cur)
    if last.strip():
        parts.append(last)
    return parts


def norm(s: str) -> str:
    """Whitespace-insensitive normal form of a code fragment."""
    s = re.sub(r'\s+', ' ', s).strip()
    s = re.sub(r'\s*([(){}\[\],;:<>=&|!+\-*/.?%])\s*', r'\1', s)
    return s


def parse_int(tok: str) -> int:
    t = tok.strip().replace('_', '')
    t = re.sub(r'(u8|u16|u32|u64|usize|i32)$', '', t)
    if t.startswith('0x') or t.startswith('0X'):
        return int(t, 16)
    if t.startswith('0b'):
        return int(t[2:], 2)
    if not re.fullmatch(r'\d+', t):
        raise TieError('not an integer literal: %r' % tok)
    return int(t)


def find_all(src: str, pat: str):
    return [m for m in re.finditer(pat, src)]


def find_block_after(src: str, start: int, opener: str = '{'):
    """Return (open_idx, close_idx) of the first `opener` bracket at/after start."""
    i = src.index(opener, start)
    return i, match_close(src, i)


def find_item(src: str, header_re: str, which: int = 0):
    """Find `header_re` followed (after optional where-clause etc.) by a {..}
    block; return (header_match, body_text, body_offset)."""
    ms = list(re.finditer(header_re, src))
    if len(ms) <= which:
        raise TieError('item not found: %s' % header_re)
    m = ms[which]
    o, c = find_block_after(src, m.end())
    return m, src[o + 1:c], o + 1


def find_fn(src: str, name: str, within=None, which: int = 0):
    """Body of `fn name` (first match, optionally inside text range `within`
    = (lo, hi))."""
    lo, hi = within if within else (0, len(src))
    ms = [m for m in re.finditer(r'\bfn\s+' + re.escape(name) + r'\b', src)
          if lo <= m.start() < hi]
    if len(ms) <= which:
        raise TieError('fn %s not found' % name)
    m = ms[which]
    # skip the parameter list
    p = src.index('(', m.end())
    pc = match_close(src, p)
    o, c = find_block_after(src, pc)
    return src[o + 1:c], o + 1


def match_arms(body: str):
    """Given the inside of a `match x { ... }` block, split into (pattern, expr)
    arms.  Handles `pat => expr,` and `pat => { ... }` forms."""
    arms = []
    i = 0
    n = len(body)
    while i < n:
        # skip whitespace and commas
        while i < n and (body[i].isspace() or body[i] == ','):
            i += 1
        if i >= n:
            break
        # pattern up to top-level =>
        depth = 0
        j = i
        while j < n:
            c = body[j]
            if c in OPEN:
                j = match_close(body, j)
            elif body.startswith('=>', j):
                break
            j += 1
        if j >= n:
            raise TieError('match arm without =>: %r' % body[i:i + 60])
        pat = body[i:j].strip()
        j += 2
        while j < n and body[j].isspace():
            j += 1
        if j < n and body[j] == '{':
            c = match_close(body, j)
            expr = body[j:c + 1]
            i = c + 1
        else:
            k = j
            while k < n:
                ch = body[k]
                if ch in OPEN:
                    k = match_close(body, k)
                elif ch == '"':
                    k += 1
                    while k < n and body[k] != '"':
                        if body[k] == '\\':
                            k += 1
                        k += 1
                elif ch == ',':
                    break
                k += 1
            expr = body[j:k].strip()
            i = k + 1
        arms.append((pat, expr))
    return arms


def find_match(src: str, start: int = 0):
    """First `match <scrutinee> {` at/after start: returns (scrutinee, body, end)."""
    m = re.compile(r'\bmatch\b').search(src, start)
    if not m:
        raise TieError('no match expression')
    # scrutinee runs to the first top-level '{'
    j = m.end()
    n = len(src)
    while j < n:
        c = src[j]
        if c in '([':
            j = match_close(src, j)
        elif c == '{':
            break
        j += 1
    scrut = src[m.end():j].strip()
    c = match_close(src, j)
    return scrut, src[j + 1:c], c + 1
