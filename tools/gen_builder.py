"""Translator: numeric constants of UpdateBuilder (update_builder.rs) -> coq/Gen/BuilderConsts.v

Extracted: MAX_PDU, the withdrawal split threshold, the fixed part of the announcement `limit`
(header + section length fields + MP_REACH framing), the `len() * 2` shortcut factor, the fixed part
of calculate_pdu_length.  The function bodies that Model/Builder.v mirrors by hand are pinned by the hash
of their normalised text (pins.json, key builder_pinned)."""
import os
import re
import sys
import hashlib

sys.path.insert(0, os.path.dirname(__file__))
from rsparse import TieError, strip_comments, norm, find_fn, find_item, parse_int


def sha(s):
    return hashlib.sha256(s.encode()).hexdigest()[:16]


def arith(expr):
    """evaluate a +,- expression of integer literals and parentheses"""
    e = expr.replace(' ', '')
    if not re.fullmatch(r'[0-9+\-()_]+', e):
        raise TieError('not a constant expression: %r' % expr)
    return eval(e.replace('_', ''), {'__builtins__': {}})  # digits, + - ( ) only


def gen(repo, pins):
    with open(os.path.join(repo, 'src/bgp/message/update_builder.rs')) as f:
        src = strip_comments(f.read())
    m = re.search(r'const\s+MAX_PDU\s*:\s*usize\s*=\s*([0-9_]+)\s*;', src)
    if not m:
        raise TieError('MAX_PDU not found')
    max_pdu = parse_int(m.group(1))
    tm, _ = find_fn(src, 'take_message')
    ths = re.findall(r'if\s+compose_len\s*>\s*([0-9_]+)\s*\{', tm)
    if len(ths) != 1:
        raise TieError('take_message: expected one literal split threshold, found %r' % ths)
    wd_threshold = parse_int(ths[0])
    if len(re.findall(r'if\s+compose_len\s*>\s*limit\s*\{', tm)) != 1:
        raise TieError('take_message: announcement loop no longer compares with `limit`')
    m = re.search(r'let\s+limit\s*=\s*\(\s*Self::MAX_PDU\s*-\s*(\([0-9+\s]+\))\s*-\s*([0-9]+|\([0-9+\s]+\))\s*\)\s*'
                  r'\.checked_sub\(\s*reach_builder\.get_nexthop\(\)\.compose_len\(\)\s*\)\s*'
                  r'\.and_then\(\s*\|l\|\s*l\.checked_sub\(other_attrs_len\)\s*\)\s*;', tm)
    if not m:
        raise TieError('take_message: `limit` expression not recognised')
    limit_fixed = arith(m.group(1)) + arith(m.group(2))
    # the extracted literals are masked in the pinned text of take_message: changing them regenerates the model
    # (and the proofs decide), changing anything else breaks the pin
    tm_masked = tm[:m.start(1)] + '#A' + tm[m.end(1):m.start(2)] + '#B' + tm[m.end(2):]
    tm_masked = re.sub(r'if\s+compose_len\s*>\s*[0-9_]+\s*\{', 'if compose_len > #T {', tm_masked)
    lt, _ = find_fn(src, 'larger_than')
    m = re.search(r'b\.announcements\.len\(\)\s*\*\s*([0-9]+)\s*>\s*max', lt)
    if not m:
        raise TieError('larger_than: shortcut not recognised')
    factor = parse_int(m.group(1))
    cl, _ = find_fn(src, 'calculate_pdu_length')
    m = re.search(r'let\s+mut\s+res\s*:\s*usize\s*=\s*([0-9+\s]+);', cl)
    if not m or len(re.findall(r'res\s*\+=\s*2\s*;', cl)) != 1 or not re.search(r'res\s*\+=\s*2\s*\+\s*self\.attributes\.bytes_len\(\)\s*;', cl):
        raise TieError('calculate_pdu_length: fixed part not recognised')
    fixed_len = arith(m.group(1)) + 2 + 2
    pinned = {}
    for name in ('take_message', 'is_valid', 'calculate_pdu_length', 'larger_than', 'into_message', 'finish',
                 'into_messages', 'add_announcements_from_pdu', 'add_withdrawals_from_pdu', 'from_update_message',
                 'set_mp_nexthop', 'add_announcement', 'add_withdrawal', 'split', 'value_len', 'compose_value',
                 'compose_len', 'compose', 'withdrawals_from_iter', 'append_withdrawals', 'announcements_from_iter',
                 'from_attributes_builder', 'add_community'):
        pinned[name] = sha(norm(find_fn(src, name)[0]))
    pinned['take_message'] = sha(norm(tm_masked))
    # second occurrences (MpUnreachNlriBuilder; the per-MP-builder from_pdu bodies)
    for name, which in (('split', 1), ('value_len', 1), ('compose_value', 1), ('add_announcements_from_pdu', 1),
                        ('add_withdrawals_from_pdu', 1), ('add_announcement', 1), ('add_withdrawal', 1)):
        pinned['%s#%d' % (name, which)] = sha(norm(find_fn(src, name, which=which)[0]))
    _, it, _ = find_item(src, r'impl<Target,\s*A>\s*Iterator\s+for\s+PduIterator')
    pinned['pdu_iterator'] = sha(norm(it))
    with open(os.path.join(repo, 'src/bgp/path_attributes.rs')) as f:
        psrc = strip_comments(f.read())
    pinned['pamap_from_update_pdu'] = sha(norm(find_fn(psrc, 'from_update_pdu')[0]))
    pinned['pamap_bytes_len'] = sha(norm(find_fn(psrc, 'bytes_len')[0]))
    with open(os.path.join(repo, 'src/bgp/message/update.rs')) as f:
        usrc = strip_comments(f.read())
    pinned['typed_announcements'] = sha(norm(find_fn(usrc, 'typed_announcements')[0]))
    pinned['typed_withdrawals'] = sha(norm(find_fn(usrc, 'typed_withdrawals')[0]))
    exp = pins.get('builder_pinned', {})
    if not pins.get('_learn'):
        for k, v in pinned.items():
            if exp.get(k) != v:
                raise TieError('%s changed (hash %s, pinned %s); Model/Builder.v mirrors the pinned text' % (k, v, exp.get(k)))
    info = {'constants': {'max_pdu': max_pdu, 'wd_threshold': wd_threshold, 'limit_fixed': limit_fixed,
                          'shortcut_factor': factor, 'fixed_len': fixed_len}, 'pinned': pinned}
    if factor != 2 or fixed_len != 23:
        raise TieError('builder constants outside what Model/Builder.v is written for: %r' % info['constants'])
    lines = ['(* GENERATED by tools/gen_builder.py from /repo - do not edit. *)',
             '(* UpdateBuilder::MAX_PDU *)', 'Definition bc_max_pdu : nat := %d.' % max_pdu,
             '(* take_message: `compose_len > N` of the withdrawal loop *)', 'Definition bc_wd_threshold : nat := %d.' % wd_threshold,
             '(* take_message: MAX_PDU - limit_fixed - next hop - other attributes *)', 'Definition bc_limit_fixed : nat := %d.' % limit_fixed, '']
    return '\n'.join(lines), info


if __name__ == '__main__':
    import json
    pp = os.path.join(os.path.dirname(__file__), 'pins.json')
    pins = json.load(open(pp))
    if '--learn' in sys.argv:
        pins['_learn'] = True
    t, info = gen('/repo', pins)
    print(t)
    print(json.dumps(info, indent=1))
    if '--learn' in sys.argv:
        del pins['_learn']
        pins['builder_pinned'] = info['pinned']
        json.dump(pins, open(pp, 'w'), indent=1)
