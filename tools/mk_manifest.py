#!/usr/bin/env python3
"""Writes MANIFEST.json from the table below (kept in one place so it stays valid)."""
import json, os
HERE = os.path.dirname(os.path.dirname(os.path.abspath(__file__)))

CLAIMED = {
 'C19': dict(
   text='Machine-checked proof (Coq 8.16) over the well-known table and the ExtendedCommunity::types table regenerated from the source on every run: building a community from 4 / 8 / 12 / 20 raw octets and reading them back is the identity; for every standard community (all 2^32: table names, unrecognised well-known values printed as 0xFFFFhhhh, reserved, private) from_str(to_string) returns it, every name / alternative name / variant name of the table parses to its row and value -> Wellknown -> value is the identity; the same text round trip for every large community, every extended community that prints in hexadecimal or as rt/ro with a two-octet AS, an IPv4 address or a four-octet AS above 65535, and every IPv6 extended community that prints in hexadecimal - both through the FromStr of the type itself and through Community::from_str (no text is claimed by a type tried earlier); every standard community is in exactly one of well-known / reserved / private, asn and tag decompose non-well-known values exactly; type, subtype and transitivity of an extended community follow its first two octets as RFC 4360 lays them out (all 65536 octet pairs).',
   note='Trusted: Coq kernel + vm_compute for finite sweeps lifted by lemmas; translator tools/gen_comm.py (tables generated; FromStr / Display / accessor bodies pinned by hash); hand-written Model/Comm.v and Base/Text.v, which model (not verify) Rust std number / hex / Ipv4Addr formatting and parsing on ASCII text, built on the Coq stdlib decimal conversion with its round-trip lemma; tied by a differential run over raw values of every type octet and boundary class and over valid and mutated texts, plus a sweep of the property itself on the real crate over all 2^32 standard communities (thorough; stratified in quick). One defect fixed in /repo (hex text wider than the type parsed as the narrower type, so Community::from_str changed the type of 0x00000000XXXXXXXX).',
   technique='Coq proof: decimal / hexadecimal print-parse round trips, split_once lemmas, table sweeps by vm_compute lifted to all values, case analysis on the print form; differential correspondence + exhaustive implementation sweep',
   design='5/C19'),
 'C17': dict(
   text='Machine-checked proof (Coq 8.16): for every history of set / set_from_enum / add_attribute / remove / merge_upsert / remove_non_transitives the map has strictly ascending keys (at most one attribute per type code) and every attribute is filed under its own code; get after set returns the value, set reports what get returned before, remove returns it and leaves the type absent (others untouched), merge lets the other map win, the byte length is the sum of the encoded lengths, stripping non-transitives keeps exactly the entries whose type - for unrecognised / malformed ones whose received flags - is transitive; a map built from an accepted UPDATE holds every attribute except MP_REACH/MP_UNREACH and OwnedPathAttributes::get returns the same typed value for every type; the workshop returns what the preceding set stored, community lists included (flavour by flavour, in stored order), and one built from an UPDATE carries that NLRI next hop and no NEXT_HOP attribute.',
   note='Trusted: Coq kernel; hand-written Model/PaMap.v over the attribute / decoder models; tied by a differential run on operation histories over all 20 attribute kinds (values from small pools, unrecognised and malformed attributes, merges, workshop set/get, community lists mixing the four flavours) against a Python reference map, and on UPDATEs with repeated types as sources. Two defects found and fixed in /repo (first-vs-last of a repeated type; Vec<Community> store lost everything).',
   technique='Coq proof: map invariant by induction over operation histories, lookup algebra, first-occurrence lemma for from_update_pdu; differential correspondence on operation histories',
   design='5/C17'),
 'C18': dict(
   text='Machine-checked proof (Coq 8.16) over tables regenerated from the source on every run: number->enum->number is the identity for every natural number and every enumeration, named variants are injective, unknown numbers land in the catch-all, AFI/SAFI as_bytes = be16 AFI ++ SAFI for all pairs, NLRI types <-> (AFI/SAFI, ADD-PATH), NOTIFICATION details re-encode (all 65536 pairs, K2 excluded with witness). The table interpreter is tied to the crate by an exhaustive differential run (every code point, all 2^24 AFI/SAFI pairs on the implementation).',
   note='Trusted: Coq kernel + vm_compute; translator tools/gen_enums.py with macro definitions pinned by hash; Model/Enums.v interpreter (hand-written, tied by exhaustive correspondence); ExtrOcamlBasic extraction and OCaml/Rust printers. No axioms.',
   technique='Coq proof: generic soundness of a boolean table checker + vm_compute on tables generated from source; exhaustive differential correspondence',
   design='5/C18'),
 'C12': dict(
   text='Machine-checked proof (Coq 8.16): the merge table generated from AddpathDirection::merge equals the RFC 7911 rule on all 9 pairs; for every pair of capability lists (any number/placement of ADD-PATH capabilities, each family at most once locally) and every family the derived configuration holds exactly dir_spec(local, peer) - receive iff local recv/both and peer send/both, send symmetrically - hence swapping the OPENs swaps send/receive; four-octet iff both carry capability 65 (BMP: per-peer header bit); the BMP per-peer-header derivation and the live-session derivation hold the same directions. No bound on the number of families or capabilities.',
   note='Trusted: Coq kernel + vm_compute on the 9-pair table; translator tools/gen_merge.py; hand-written Model/Negotiate.v and Model/Open.v tied by a differential run (all 16 combinations per family x placements x four-octet x legacy through the helper and both BMP derivations). Live-session clause: c12_live_session_fsm ties the FSM model (generated table, OPEN acceptance block) to live_session_config; the configuration of the connection is compared after every step of the C08 correspondence (cfg hooks). F16 fixed in /repo.',
   technique='Coq proof by induction over capability/family lists + finite table check on generated merge arms; differential correspondence',
   design='5/C12'),
 'C08': dict(
   text='Machine-checked proof (Coq 8.16) over the transition table regenerated from Session::handle_event on every run: for every abstract session (all values of state, timer flags, connection, DelayOpen / SendNOTIFICATIONwithoutOPEN / exact attributes, arbitrary counters, queues, hold times) and every one of the 21 events, outside the known todo!() cells the step does not panic and the next state is the one of an independently written RFC 4271 8.2.2 table; in OpenSent / OpenConfirm / Established a forbidden event, hold-timer expiry or manual stop sends the NOTIFICATION the RFC names, releases the connection and goes Idle; Established is entered only by a KEEPALIVE in OpenConfirm and OpenConfirm only by accepting an OPEN from an allowed AS, hence (by induction over event histories of any length) an Established session has seen such an OPEN and later a KEEPALIVE; an UPDATE is handed to the application iff the session is Established when it is processed; a received NOTIFICATION reaches the application and the FSM.',
   note='Trusted: Coq kernel (vm_compute over the finite control part); translator tools/gen_fsm.py (statements recognised exactly, OPEN acceptance block by hash), hand-written action semantics in Model/Fsm.v, RFC table in Model/RefFsm.v; tied through cfg hooks: every event history up to the depth bound, every (state, event) cell, message-driven steps also black box over a loopback TCP stream through tick(), random histories, judged against a Python copy of the RFC table. Five defects fixed in /repo (UPDATE forwarding, NotifMsg, two wire-reachable todo!() groups, live negotiation); K4 (unimplemented active-open cells) and K6 (tick maps errors to Connect; unparsable ADD-PATH capability) recorded.',
   technique='Coq proof: generated transition table interpreted on an abstract session, exhaustive case analysis of the finite control part against an RFC reference table, induction over event histories; differential correspondence through cfg hooks',
   design='5/C08'),
 'C09': dict(
   text='Machine-checked proof (Coq 8.16): for every sequence of well-formed frames and every way their octets are cut into reads (any number of reads, any split points, empty reads, starting with part of a message already buffered) the extractor returns exactly these messages, each once, in order, and ends with an empty buffer - by induction over the reads with a prefix-decomposition lemma, no bound on counts or sizes; a length field below 19 or a complete frame that does not decode is an error; neither the extractor (for any octets and any reads) nor the blocking reader (for every length value) panics; no message the peer can send panics the session while a connection is attached.',
   note='Trusted: Coq kernel; hand-written Model/Fsm.v (parse_frame, read loop, read_message; bodies pinned by hash); the theorems are parametric in the validity of an extracted frame (Message::from_octets). Tied through cfg hooks that append octets to the receive buffer and run the extractor: every split point of short streams, one-octet reads, random partitions, every small length value and a sweep of all 65536. F14 fixed in /repo.',
   technique='Coq proof: prefix decomposition of the stream, induction over reads; no-panic lemmas; differential correspondence through cfg hooks',
   design='5/C09'),
 'C10': dict(
   text='Machine-checked proof (Coq 8.16): for all pairs of eligible routes the comparison (chain order generated from the source) equals the RFC 4271 9.1.2.2 / RFC 4456 decision computed by an independent key-vector reference and never panics; with MED comparison disabled it is a strict weak order (irreflexive, transitive, incomparability transitive, Eq compatible) via a then_with-closure lemma; antisymmetry for both strategies; a MED preference cycle is exhibited; try_new refuses exactly the routes lacking ORIGIN/AS_PATH or eBGP without neighbour; hop count = sequence ASNs + sets.',
   note='Trusted: Coq kernel; translator tools/gen_cmpchain.py (step order generated, step bodies pinned by hash); Model/Select.v projection of PaMap/TiebreakerInfo, tied by a differential run over a route lattice (pairs in both orders, triples, both strategies) plus an independent Python reference and order-law checks on the implementation answers.',
   technique='Coq proof: lexicographic then_with closure of total preorders; refinement to an independent RFC reference; differential correspondence',
   design='5/C10'),
 'C11': dict(
   text='Machine-checked proof (Coq 8.16) by fold invariant over arbitrary candidate lists of any item type with a strict weak order and a content equivalence that ties in preference: best is a candidate nothing is preferred over and equals Iterator::min; backup is None iff all candidates share the content of the best; otherwise it differs in content from the best and no candidate differing from the best is preferred over it; the backup preference class is permutation invariant; positions index the returned routes; the generic helper returns the two smallest of pairwise distinct items. Hypotheses discharged for eligible routes under SkipMed.',
   note='Trusted: Coq kernel; hand-written fold models in Model/Select.v tied by a differential run (all short lists over a 12-route lattice with duplicates and ties, sampled permutations of multisets of 4-6, random lists) plus an oracle checking the statement on the implementation answers. With MED enabled only best-is-min-helper is claimed (no weak order).',
   technique='Coq proof by induction over the candidate list with a three-part invariant; permutation argument; differential correspondence',
   design='5/C11'),
 'C05': dict(
   text='Machine-checked proof (Coq 8.16): for every well-formed NLRI value of the 13 families, with or without a path id, and any following octets, decode(encode v ++ rest) = (v, rest) consuming exactly the encoding; the length reported before encoding equals the octets produced; a concatenation of encodings of any length decodes to exactly the original sequence in order (induction over the list). No bound on label depth, body size or list length beyond what the wire format can express (wf_nlri).',
   note='Trusted: Coq kernel; hand-written Model/Nlri.v (codecs, Labels::parse, FlowSpec component walk, Prefix::new host-bit check as a predicate on octets, NlriIter), tied by a differential run: every prefix length x bit patterns x families x ADD-PATH, label depths, length-encoding edges, concatenations, plus truncated/mutated/random octets (outcome classes compared). u8 arithmetic in the overflow-checking profile.',
   technique='Coq proof: round-trip by structural lemmas per family + induction over the NLRI list; differential correspondence on reference encodings',
   design='5/C05'),
 'C14': dict(
   text='Machine-checked proof (Coq 8.16): for all NLRI values of the 26 variants the ordering (a lexicographic key mirroring each Ord impl, variant index first) is a total order given a total order on prefixes, cmp = Equal iff ==, == is Leibniz equality of the value (so buffer-type independent) and implies equal hash input, and two ADD-PATH NLRI are == iff path id and NLRI proper are equal.',
   note='Trusted: Coq kernel; Model/NlriOrd.v field orders and hash-input layout (hand-written, tied by a differential run over identical / one-component-differs / triple / cross-variant pairs with a recording Hasher and three buffer types). inetnum Prefix::cmp is a hypothesis of the theorems (external crate); its executable model is compared with the crate on every pair and the order laws are checked on the crate.',
   technique='Coq proof: lexicographic-list total preorder lemma + key injectivity; differential correspondence incl. recorded hash inputs',
   design='5/C14'),
 'C13': dict(
   text='Machine-checked proof (Coq 8.16): for every hop path built from ASNs, AS_SETs and confederation segments (runs of any length, no bound) conversion to wire format yields a valid AS_PATH with every segment count <= 255 whose hop sequence is the original; wire -> hops -> wire preserves hops for every valid wire path of either width; prepending n copies yields exactly n hops plus the original; the 2-octet and 4-octet encodings of the same segments are == and hash identically; conversion to 2-octet form fails iff some ASN exceeds 65535; the path-selection hop count formula. K1 (segment hop > 255 ASNs panics) is excluded by hop_ok and exhibited by a witness.',
   note='Trusted: Coq kernel; hand-written Model/AsPath.v tied by a differential run (run lengths around/over 255 and 510 - all 0..=600 in the thorough tier -, all segment types, both widths, prepend counts to 600, truncated/invalid wire paths, recorded hash inputs).',
   technique='Coq proof: induction over hops with a run-splitting lemma (len mod 255 + chunks of 255), refinement to a segment list; differential correspondence',
   design='5/C13'),
 'C03': dict(
   text='Machine-checked proof (Coq 8.16): for every byte string OPEN / NOTIFICATION / KEEPALIVE / ROUTE-REFRESH decoding and the Message dispatch return a message or an error, never a panic; an accepted OPEN is exactly an encoding of fixed fields plus optional parameters (capability groups whose every capability satisfies the generated per-type content rule, or opaque non-capability parameters) whose header length equals the octets supplied, and every accessor reports the encoded fields, parameters and capabilities (my_asn: the four-octet capability first), so no accessor or iterator of an accepted message panics; accepted KEEPALIVE is exactly 19 octets, NOTIFICATION at least 21 with matching length; NotificationBuilder / KeepaliveBuilder output and ROUTE-REFRESH encodings decode back to their fields; OpenBuilder::finish, when it returns, wrote the fields and one capabilities parameter in order (at most 253 octets).',
   note='Trusted: Coq kernel; hand-written Model/OpenMsg.v; capability content rules generated from Capability::parse (arms recognised by hash), mirrored bodies pinned; tied by a differential run over every capability code x length 0..=20, structured OPENs from a Python reference encoder, mutated / truncated / random octets, NOTIFICATIONs of totals 18..22, builder scripts around 253 octets decoded back in a second stage. Three defects fixed in /repo (F7, F8, F9); K3 (OpenBuilder u8 overflow) recorded.',
   technique='Coq proof: no-panic lemmas per decoder, inversion of the check into an encoding of ok parameters, forward framing lemmas, accessors computed on the canonical form; differential correspondence',
   design='5/C03'),
 'C04': dict(
   text='Machine-checked proof (Coq 8.16) over the attribute table generated from the source (type code, canonical flags, validate rule, value_len rule per type): every well-formed typed value of the 20 kinds encodes to header ++ value that decodes (4-octet ASNs) and converts back to the same value consuming exactly the encoding; reported length = octets produced; flags canonical with extended-length exactly above 255 octets; for every value of any length that violates the type rule the attribute is surfaced as Invalid with canonical flags and its raw value; unknown codes keep flags, code and value. List sizes, path lengths and value lengths are unbounded (up to the 16-bit length field).',
   note='Trusted: Coq kernel (+ vm_compute to look up the generated table); translator tools/gen_attrs.py and its pinned hashes; hand-written compose_value/parse bodies in Model/Attr.v tied by a differential run (all 20 kinds at sizes straddling 255/256 octets and 255 ASNs; every value length 0..=300 x every typed code x both widths x length encodings; unknown codes; random octets) with an independent RFC length table as oracle.',
   technique='Coq proof: framing lemma + per-shape value lemmas against a generated rule table; differential correspondence',
   design='5/C04'),
 'C01': dict(
   text='Machine-checked proof (Coq 8.16): for every UPDATE content (any number of conventional withdrawals/announcements with path ids exactly when the session negotiated ADD-PATH reception, any list of path attributes as (flags,type,value) in any order, MP_REACH/MP_UNREACH of any of the 13 modelled families) the reference encoding is accepted by the decoder model and its accessors return exactly that content: section lengths, attributes in order with flags/type/value, typed values of the 20 attribute kinds, conventional and MP NLRI with path ids, and End-of-RIB for exactly the family it denotes (never for a message with conventional NLRI).',
   note='Trusted: Coq kernel; hand-written Model/Update.v and reference encoder Model/RefEncUpdate.v (tied by a three-way differential run: an independent Python reference encoder generates valid messages of every family/ADD-PATH combination, implementation and extracted model decode them, both are compared with each other and with the generated content). Human-readable display wrappers are exercised only.',
   technique='Coq proof: framing lemmas over an independent reference encoder, decode-of-encode theorems per accessor; three-way differential correspondence on generated valid messages',
   design='5/C01'),
 'C06': dict(
   text='Machine-checked proof (Coq 8.16) on the UpdateBuilder model: every take_message step that leaves a remainder removes at least one NLRI, so into_messages and the PDU iterator terminate within (number of NLRI + 1) steps for every input; a successful run is a sequence of batches whose announcements and withdrawals concatenate to the input (each once, in order), every batch with announcements has the full attribute map and the next hop, no batch is empty unless the input was; every produced message is at most MAX_PDU octets, equals the reference encoding of (MP_REACH, MP_UNREACH, attribute map), has length calculate_pdu_length, and is decoded by the C01 decoder model to exactly the batch (length fields match the octets, no conventional NLRI); a PduTooLarge error is reported only for unrepresentable input.',
   note='Trusted: Coq kernel; hand-written Model/Builder.v; MAX_PDU / 4000 / the fixed part of `limit` generated from update_builder.rs, mirrored function bodies pinned by hash (tools/gen_builder.py); tied by a differential run on builder scripts landing on and around every split threshold for all 26 NLRI types and every next-hop form, plus an independent Python splitter judging the implementation output alone. usize overflow of the length sums is not modelled.',
   technique='Coq proof: progress measure, conservation invariant over the batch plan, byte-level refinement to the reference encoder and reuse of the C01 decode theorems; differential correspondence on builder scripts',
   design='5/C06'),
 'C07': dict(
   text='Machine-checked proof (Coq 8.16): for every accepted UPDATE of at most 21845 octets (hence every 4096-octet PDU) and every session configuration, to_owned succeeds on every path attribute and yields a well-formed owned value; composing them - directly, in order, or through the attribute map (one per type code, ascending, MP_REACH/MP_UNREACH left out) - succeeds and the octets decode, attribute by attribute under the four-octet configuration, to the same type codes with the same owned values for recognised types, to the same value octets for unrecognised and for malformed ones (any length, either length encoding on input), with flags = received optional/transitive bits + PARTIAL and the extended-length bit matching the length. Builder route (c07_builder_partial): the seeded builder carries exactly that map and its message is a well-formed UPDATE whose MP sections decode to the re-added NLRI, under the hypothesis that those NLRI are well-formed values of the builder type.',
   note='Trusted: Coq kernel; hand-written Model/Attr.v, Model/Update.v, Model/Builder.v, generated attribute table; tied by a differential run on accepted UPDATEs with unknown attributes of every flag nibble and malformed recognised attributes of 0..1000 octets, whose re-encoded octets are decoded again by the implementation (second stage) and compared attribute by attribute. Known finding K5: add_*_from_pdu panics (unwrap) when the NLRI do not parse as the builder type.',
   technique='Coq proof: validate => well-formed owned value per attribute type, framing lemma for opaque attributes, induction over the attribute walk, suffix-parser invariant for "accepted"; two-stage differential correspondence',
   design='5/C07'),
 'C02': dict(
   text='Machine-checked proof (Coq 8.16): for every byte string of any length and every session configuration UPDATE decoding returns a message or an error, never a panic (every slice index, unwrap, with_range and u8 operation of the modelled code is an explicit Panic branch shown unreachable); every NLRI iterator (conventional and MP) ends after at most as many items as the section has octets, an item-level error is its last item and no item is a panic; path attribute items and their to_owned conversion, the typed getters and the four community iterators never panic; the all-or-nothing vectors succeed exactly when every item does and fail exactly when an item fails.',
   note='Trusted: Coq kernel; hand-written Model/Update.v over the C04/C05/C13 models (tied by a differential run on mutated valid messages of every family, grammar walks with adversarial length fields, random octets, random ADD-PATH maps; every accessor outcome compared, PANIC/HANG on the implementation is a failing input by itself). Accessors that are thin wrappers (typed_*, find_next_hop, human-readable variants) are exercised only.',
   technique='Coq proof: structural no-panic lemmas per parser, strict-consumption measure for iterator termination; differential correspondence on malformed inputs',
   design='5/C02'),
}

PENDING = {}
for i in range(1, 21):
    pid = 'C%02d' % i
    if pid not in CLAIMED:
        PENDING[pid] = 'model and proofs not yet built in this round (planned in DESIGN.md section 9; not a limitation of the technique)'

m = {
 'version': 1,
 'setup_cmd': './setup.sh',
 'hooks': {
   'guard': 'nlnetlabs_routecore_verif',
   'enable': 'RUSTFLAGS="--cfg nlnetlabs_routecore_verif" (set by lib/core.py when building harness/ against /repo)',
   'baseline_off_cmd': 'cd /repo && cargo test --workspace --no-fail-fast --offline',
   'source_commits': ['a24dd59', '3c8bc06'],
   'add_only': True,
 },
 'engines': [
   {'name': 'coq-proof', 'path': 'coq/', 'serves_properties': sorted(CLAIMED),
    'kind_free_text': 'Coq 8.16.1 development: Gen/ regenerated from /repo by tools/gen_*.py, Model/ executable Gallina, Proofs/, Props/Cxx.v statements'},
   {'name': 'correspondence', 'path': 'check', 'serves_properties': sorted(CLAIMED),
    'kind_free_text': 'OCaml-extracted model (ocaml/) vs Rust harness (harness/) on the same generated cases; impl-side property oracle as failing-input search'},
 ],
 'checks': [],
 'not_applicable': [{'property_id': p, 'reason': r} for p, r in sorted(PENDING.items())],
 'notes': 'Every check: ./check <id> [--tier quick|thorough]. See DESIGN.md.',
}
for pid in sorted(CLAIMED):
    c = CLAIMED[pid]
    m['checks'].append({
      'property_id': pid,
      'quick_cmd': './check %s --tier quick' % pid,
      'thorough_cmd': './check %s --tier thorough' % pid,
      'evidence_file': 'evidence/%s.json' % pid,
      'replay_cmd_template': './check %s --replay {path}' % pid,
      'engine': 'coq-proof',
      'level_claimed': {'category': 'proof', 'text': c['text'], 'design_ref': c['design']},
      'level_note': c['note'],
      'technique': c['technique'],
    })
with open(os.path.join(HERE, 'MANIFEST.json'), 'w') as f:
    json.dump(m, f, indent=1)
print('claimed', sorted(CLAIMED))
