"""Registry of translators: name -> (function(repo, pins) -> (coq_text, info), output file in coq/Gen)."""
import gen_enums

GENERATORS = {
    'enums': (gen_enums.gen, 'EnumTables.v'),
}
