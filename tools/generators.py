"""Registry of translators: name -> (function(repo, pins) -> (coq_text, info), output file in coq/Gen)."""
import gen_enums
import gen_merge
import gen_cmpchain
import gen_attrs
import gen_builder
import gen_caps
import gen_fsm
import gen_comm
import gen_timer
import gen_bmp
import gen_mrt

GENERATORS = {
    'enums': (gen_enums.gen, 'EnumTables.v'),
    'merge': (gen_merge.gen, 'Merge.v'),
    'cmpchain': (gen_cmpchain.gen, 'CmpChain.v'),
    'attrs': (gen_attrs.gen, 'AttrRules.v'),
    'builder': (gen_builder.gen, 'BuilderConsts.v'),
    'caps': (gen_caps.gen, 'CapRules.v'),
    'fsm': (gen_fsm.gen, 'FsmTable.v'),
    'comm': (gen_comm.gen, 'CommTables.v'),
    'timer': (gen_timer.gen, 'TimerConsts.v'),
    'bmp': (gen_bmp.gen, 'BmpPins.v'),
    'mrt': (gen_mrt.gen, 'MrtTables.v'),
}
