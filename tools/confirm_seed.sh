#!/bin/bash
# usage: confirm_seed.sh <name> <worktree> : confirm a seeded change (suite passes with it, demo fails with it,
# demo passes without it) and store it under /verif/seeded/<name>/
name=$1; wt=$2; out=/verif/seeded/$name
mkdir -p $out
cd $wt || exit 2
git diff -- src > $out/patch.diff
cp tests/seeded_demo.rs $out/seeded_demo.rs 2>/dev/null
log=$out/confirm.log; : > $log
export CARGO_NET_OFFLINE=true
F='--features bmp,fsm,mrt,serde'
# 1. suite with the change (demo moved aside)
mkdir -p /tmp/aside_$name && mv tests/seeded_demo.rs /tmp/aside_$name/
cargo test --workspace --no-fail-fast --offline >> $log 2>&1; s1=$?
mv /tmp/aside_$name/seeded_demo.rs tests/
# 2. demo with the change (demos that use the cfg hooks need the guard on)
if grep -q "verif_\|nlnetlabs_routecore_verif" tests/seeded_demo.rs; then export RUSTFLAGS="--cfg nlnetlabs_routecore_verif"; fi
cargo test --offline $F --test seeded_demo >> $log 2>&1; s2=$?
# 3. demo without the change
git checkout -- src        # (no git stash: the stash is shared between worktrees)
cargo test --offline $F --test seeded_demo >> $log 2>&1; s3=$?
git apply $out/patch.diff
echo "suite_with_change=$s1 demo_with_change=$s2 demo_without_change=$s3" | tee $out/confirm.txt
