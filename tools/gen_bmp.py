"""Translator (pins only): src/bmp/message.rs and the two BGP parse functions it relies on -> coq/Gen/BmpPins.v

Model/Bmp.v is hand-written; this ties it to the source by pinning, as hashes of their normalised text, every function body it
mirrors (pins.json, key bmp_pinned).  The MessageType code points are generated and the model's dispatch is checked against
them by a proof obligation (Props: kind_of agrees with the table)."""
import os
import re
import sys
import hashlib

sys.path.insert(0, os.path.dirname(__file__))
from rsparse import TieError, strip_comments, norm, find_fn, find_item, match_close, split_top, parse_int


def sha(s):
    return hashlib.sha256(s.encode()).hexdigest()[:16]


def gen(repo, pins):
    with open(os.path.join(repo, 'src/bmp/message.rs')) as f:
        src = strip_comments(f.read())
    src = re.sub(r'(debug|warn)!\((?:[^()]|\([^()]*\))*\)\s*;', '', src)
    t = src.find('#[cfg(test)]')
    if t > 0:
        src = src[:t]
    m = re.search(r'typeenum!\(\s*MessageType\s*,\s*u8\s*,\s*\{', src)
    if not m:
        raise TieError('typeenum!(MessageType ..) not found')
    o = src.index('{', m.start())
    c = match_close(src, o)
    table = []
    for ent in split_top(src[o + 1:c]):
        ent = ent.strip()
        if ent:
            k, v = [x.strip() for x in ent.split('=>')]
            table.append((parse_int(k), v))
    pinned = {}
    items = [
        ('message_from_octets', r'impl<Octs:\s*Octets>\s*Message<Octs>\s*\{\s*pub\s+fn\s+from_octets'),
        ('message_check', r'impl<Octs:\s*Octets>\s*Message<Octs>\s*\{\s*pub\s+fn\s+check'),
        ('common_header', r'impl<Octs:\s*Octets>\s*CommonHeader<Octs>\s*\{\s*fn\s+for_slice'),
        ('common_header_parse', r'impl<Octs:\s*Octets>\s*CommonHeader<Octs>\s*\{\s*fn\s+parse'),
        ('pph_check', r'impl<Octs:\s*Octets>\s*PerPeerHeader<Octs>\s*\{'),
        ('pph_accessors', r'impl<Octets:\s*AsRef<\[u8\]>>\s*PerPeerHeader<Octets>\s*\{'),
        ('rm_check', r'impl<Octs:\s*Octets>\s*RouteMonitoring<Octs>\s*\{\s*pub\s+fn\s+from_octets'),
        ('rm_accessors', r'impl<Octs:\s*Octets>\s*RouteMonitoring<Octs>\s*\{\s*pub\s+fn\s+common_header'),
        ('sr_accessors', r'impl<Octs:\s*Octets>\s*StatisticsReport<Octs>\s*\{\s*pub\s+fn\s+common_header'),
        ('sr_check', r'impl<Octs:\s*Octets>\s*StatisticsReport<Octs>\s*\{\s*pub\s+fn\s+from_octets'),
        ('pd_accessors', r'impl<Octs:\s*Octets>\s*PeerDownNotification<Octs>\s*\{\s*pub\s+fn\s+common_header'),
        ('pd_check', r'impl<Octs:\s*Octets>\s*PeerDownNotification<Octs>\s*\{\s*pub\s+fn\s+from_octets'),
        ('pu_accessors', r'impl<Octs:\s*Octets>\s*PeerUpNotification<Octs>\s*\{\s*pub\s+fn\s+common_header'),
        ('pu_check', r'impl<Octs:\s*Octets>\s*PeerUpNotification<Octs>\s*\{\s*pub\s+fn\s+from_octets'),
        ('init_accessors', r'impl<Octs:\s*Octets>\s*InitiationMessage<Octs>\s*\{\s*pub\s+fn\s+common_header'),
        ('init_check', r'impl<Octs:\s*Octets>\s*InitiationMessage<Octs>\s*\{\s*pub\s+fn\s+from_octets'),
        ('term_accessors', r'impl<Octs:\s*Octets>\s*TerminationMessage<Octs>\s*\{\s*pub\s+fn\s+common_header'),
        ('term_check', r'impl<Octs:\s*Octets>\s*TerminationMessage<Octs>\s*\{\s*pub\s+fn\s+from_octets'),
        ('mirror_accessors', r'impl<Octs:\s*Octets>\s*RouteMirroring<Octs>\s*\{\s*pub\s+fn\s+common_header'),
        ('mirror_check', r'impl<Octs:\s*Octets>\s*RouteMirroring<Octs>\s*\{\s*pub\s+fn\s+from_octets'),
        ('information_tlv', r"impl<'a>\s*InformationTlv<'a>\s*\{"),
        ('information_tlv_iter', r"impl<'a>\s*InformationTlvIter<'a>\s*\{"),
        ('information_tlv_iter_next', r"impl<'a>\s*Iterator\s+for\s+InformationTlvIter<'a>\s*\{"),
        ('stat_iter', r"impl\s*<'a>\s*StatIter<'a>\s*\{"),
        ('stat_iter_next', r"impl\s+Iterator\s+for\s+StatIter<'_>\s*\{"),
        ('information_iter', r"impl<'a>\s*InformationIter<'a>\s*\{"),
        ('information_iter_next', r"impl\s+Iterator\s+for\s+InformationIter<'_>\s*\{"),
    ]
    for key, hdr in items:
        mm = re.search(hdr, src)
        if not mm:
            raise TieError('bmp/message.rs: item for %s not found' % key)
        o = src.index('{', mm.start())
        c = match_close(src, o)
        pinned[key] = sha(norm(src[o:c + 1]))
    mc = re.search(r'const\s+COFF\s*:\s*usize\s*=\s*([^;]*);', src)
    if not mc:
        raise TieError('const COFF not found')
    coff = sum(parse_int(x) for x in mc.group(1).split('+'))
    with open(os.path.join(repo, 'src/bgp/message/open.rs')) as f:
        so = strip_comments(f.read())
    so = re.sub(r'(debug|warn)!\((?:[^()]|\([^()]*\))*\)\s*;', '', so)
    mo = re.search(r'pub\s+fn\s+parse<\'a>\(parser:\s*&mut\s+Parser<\'a,\s*Octs>\)\s*->\s*Result<OpenMessage', so)
    if not mo:
        raise TieError('OpenMessage::parse not found')
    pinned['open_parse'] = sha(norm(find_fn(so[mo.start():], 'parse')[0]))
    mp = re.search(r'impl<Octs:\s*Octets>\s*Parameter<Octs>\s*\{[^{}]*pub\s+fn\s+parse', so)
    if not mp:
        raise TieError('Parameter::parse not found')
    pinned['param_parse'] = sha(norm(find_fn(so[mp.start():], 'parse')[0]))
    with open(os.path.join(repo, 'src/bgp/message/notification.rs')) as f:
        sn = strip_comments(f.read())
    pinned['notification_parse'] = sha(norm(find_fn(sn, 'parse')[0]))
    exp = pins.get('bmp_pinned', {})
    if not pins.get('_learn'):
        for k, v in pinned.items():
            if exp.get(k) != v:
                raise TieError('%s changed (hash %s, pinned %s); Model/Bmp.v mirrors the pinned text' % (k, v, exp.get(k)))
    L = ['(* GENERATED by tools/gen_bmp.py from /repo/src/bmp/message.rs - do not edit. *)',
         'From Coq Require Import List NArith.', 'Import ListNotations.', 'Open Scope N_scope.',
         '(* typeenum!(MessageType, u8, ..): code point => variant, in source order *)',
         'Inductive bmp_msg_type := %s.' % ' | '.join('MT' + v for _, v in table),
         'Definition bmp_msg_types : list (N * bmp_msg_type) := [%s].' % '; '.join('(%d, MT%s)' % (k, v) for k, v in table),
         '(* const COFF: offset of the payload behind the common and per-peer headers *)',
         'Definition bmp_coff : nat := %d.' % coff, '']
    return '\n'.join(L), {'pinned': pinned, 'message_types': table, 'coff': coff}


if __name__ == '__main__':
    import json
    pp = os.path.join(os.path.dirname(__file__), 'pins.json')
    pins = json.load(open(pp))
    if '--learn' in sys.argv:
        pins['_learn'] = True
    t, info = gen('/repo', pins)
    print(t)
    print(json.dumps(info, indent=1))
    if '--learn' in sys.argv:
        del pins['_learn']
        pins['bmp_pinned'] = info['pinned']
        json.dump(pins, open(pp, 'w'), indent=1)
