#!/bin/bash
# usage: try_seed.sh <seed-name> <property> [<property>...] : apply the seeded patch to /repo, run the checks, undo
name=$1; shift
cd /verif
git -C /repo apply /verif/seeded/$name/patch.diff || { echo "patch does not apply"; exit 2; }
for p in "$@"; do
  out=$(./check $p 2>&1); rc=$?
  echo "seed=$name check=$p exit=$rc :: $(echo "$out" | grep -E 'VIOLATION|PASS|FAIL' | tr '\n' ' ')"
  if [ $rc -ne 0 ]; then r=$(echo "$out" | grep -o 'replay=[^ ]*' | head -1 | cut -d= -f2); [ -n "$r" ] && grep -m2 '"what"\|^broken' $r | cut -c1-400; fi
done
git -C /repo checkout -- .
# leave the generated model files as they are for the unchanged tree
python3 -c "import sys; sys.path.insert(0,'/verif'); sys.path.insert(0,'/verif/tools'); from lib import core; core.run_generators(set())" >/dev/null 2>&1
# evidence written while the seeded change was applied describes a modified tree: restore the committed records
git -C /verif checkout -- evidence 2>/dev/null
