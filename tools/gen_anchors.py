#!/usr/bin/env python3
"""Pins of the anchored mechanisms.

Every property names, under anchors.mechanism, the functions (file:line ranges of the pinned commit) whose behaviour it is about.
The hand-written models mirror exactly that code, so its text is pinned here, per property: the normal form (comments and
whitespace removed) of every item - function body, enum / struct / macro_rules definition, typeenum!-style invocation - that an
anchored range touches.  A check fails its tie when one of its property's items changes; the correspondence run then looks for
a failing input.  (The specific translators pin or regenerate much of this code already; this closes what they leave out:
accessors in update.rs, the NLRI codecs, aspath.rs, path_selection.rs, workshop/route.rs, flowspec.rs ...)

  gen_anchors.py --learn     recompute tools/anchor_pins.json: the items per property from the base commit's line numbers
                             (anchors refer to that commit), their hashes from the current tree
  gen(repo, pins, prop)      used by ./check: compare the current tree with tools/anchor_pins.json
"""
import hashlib
import json
import os
import re
import subprocess
import sys

sys.path.insert(0, os.path.dirname(os.path.abspath(__file__)))
from rsparse import TieError, strip_comments, match_close, norm  # noqa: E402

HERE = os.path.dirname(os.path.abspath(__file__))
PINFILE = os.path.join(HERE, 'anchor_pins.json')
BASE = 'a55d07f'     # the commit the properties' line numbers refer to

# Code the hand-written model of a property mirrors although the property's anchors do not list it (callees of the anchored
# functions): (file, kind, name regex).  Found by seeded changes the anchors alone did not notice.
EXTRA = {
    # the per-family parse functions of afisafi.rs (anchored) delegate to these; Model/Nlri.v parse_body mirrors them
    # SessionConfig / SessionAddpaths: what decides whether a section is read with path ids
    'C01': [('src/bgp/message/update.rs', 'fn', r'set|add_addpath|add_famdir|add_addpath_rxtx|clear_addpaths|get_addpath|rx_addpath|enabled_addpaths|from_session_config')],
    # an NLRI item yielded by an accepted message: its own accessors
    'C02': [('src/bgp/nlri/routetarget.rs', 'fn', r'origin_as|route_target|is_default|parse')],
    # Attribute for HopPath (value_len / compose_value) goes through these: every AS_PATH the builder or a re-encoding writes
    'C06': [('src/bgp/aspath.rs', 'fn', r'compose_as_path|compose_as16_path|to_as_path|compose_len')],
    'C07': [('src/bgp/aspath.rs', 'fn', r'compose_as_path|compose_as16_path|to_as_path|compose_len|to_hop_path|next|hops|segments')],
    'C05': [('src/bgp/nlri/%s.rs' % f, 'fn', r'parse\w*') for f in ('mpls', 'mpls_vpn', 'common', 'evpn', 'routetarget', 'vpls', 'flowspec')],
}

ITEM_RE = re.compile(r'\b(fn|enum|struct|union|macro_rules!|trait)\s+([A-Za-z_][A-Za-z_0-9]*)|\b([a-z_][a-z_0-9]*!)\s*[\(\{]')


def sha(s):
    return hashlib.sha256(s.encode()).hexdigest()[:16]


def items_of(src):
    """[(kind, name, occurrence, start_off, end_off)] of every fn / enum / struct / macro definition with a body, and of every
    macro invocation at nesting depth 0 (typeenum!(..), afisafi!{..}, path_attributes!(..) ...)"""
    s = strip_comments(src)
    out = []
    seen = {}
    # nesting depth at each offset (braces only), to tell top-level macro invocations
    depth = []
    d = 0
    for ch in s:
        if ch == '}':
            d -= 1
        depth.append(d)
        if ch == '{':
            d += 1
    for m in ITEM_RE.finditer(s):
        if m.group(3):
            name = m.group(3)
            if depth[m.start()] != 0 or name in ('macro_rules!',):
                continue
            o = m.end() - 1
            try:
                c = match_close(s, o)
            except Exception:
                continue
            kind = 'macro'
        else:
            kind, name = m.group(1), m.group(2)
            # the body: the first { after the header, unless a ; comes first (declaration without body)
            i = m.end()
            if kind == 'fn':
                try:
                    p = s.index('(', i)
                    i = match_close(s, p) + 1
                except Exception:
                    continue
            nb = s.find('{', i)
            ns = s.find(';', i)
            if nb < 0 or (0 <= ns < nb and kind in ('fn', 'struct')):
                if kind == 'struct' and 0 <= ns and (nb < 0 or ns < nb):
                    o, c = m.start(), ns      # tuple / unit struct
                    key = (kind, name)
                    k = seen.get(key, 0)
                    seen[key] = k + 1
                    out.append((kind, name, k, m.start(), ns))
                continue
            o = nb
            try:
                c = match_close(s, o)
            except Exception:
                continue
        key = (kind, name)
        k = seen.get(key, 0)
        seen[key] = k + 1
        out.append((kind, name, k, m.start(), c))
    return s, out


def line_of(s, off):
    return s.count('\n', 0, off) + 1


def parse_where(where):
    """'src/a.rs:10-20, 30-40; src/b.rs:5-6' -> [(file, lo, hi)]"""
    res = []
    for part in where.split(';'):
        part = part.strip()
        if not part:
            continue
        m = re.match(r'([\w/\.]+):(.*)', part)
        if not m:
            continue
        f = m.group(1)
        for r in m.group(2).split(','):
            r = r.strip()
            mm = re.match(r'(\d+)(?:-(\d+))?', r)
            if mm:
                lo = int(mm.group(1))
                hi = int(mm.group(2) or lo)
                res.append((f, lo, hi))
    return res


def learn(repo, props_path):
    base_cache = {}

    def base_items(f):
        if f not in base_cache:
            try:
                txt = subprocess.run(['git', '-C', repo, 'show', '%s:%s' % (BASE, f)], capture_output=True, text=True, check=True).stdout
            except subprocess.CalledProcessError:
                base_cache[f] = None
                return None
            s, its = items_of(txt)
            base_cache[f] = [(k, n, occ, line_of(s, a), line_of(s, b)) for k, n, occ, a, b in its]
        return base_cache[f]

    out = {}
    for l in open(props_path):
        p = json.loads(l)
        chosen = []
        for m in p['anchors']['mechanism'] + p['anchors'].get('state', []):
            for f, lo, hi in parse_where(m.get('where', '')):
                its = base_items(f)
                if not its:
                    continue
                hit = [(k, n, occ, a, b) for k, n, occ, a, b in its if not (b < lo or a > hi)]
                # keep the innermost items: drop an item that strictly contains another hit (an impl-level macro around fns)
                inner = [x for x in hit if not any(y is not x and x[3] <= y[3] and y[4] <= x[4] and (y[3], y[4]) != (x[3], x[4]) for y in hit)]
                for k, n, occ, a, b in inner:
                    key = '%s::%s %s#%d' % (f, k, n, occ)
                    if key not in chosen:
                        chosen.append(key)
        for f, kind, rx in EXTRA.get(p['id'], []):
            for k, n, occ, a, b in base_items(f) or []:
                key = '%s::%s %s#%d' % (f, k, n, occ)
                if k == kind and re.fullmatch(rx, n) and key not in chosen:
                    chosen.append(key)
        out[p['id']] = chosen
    # hashes from the current tree
    pins = {}
    for pid, keys in out.items():
        pins[pid] = {}
        for key in keys:
            h = current_hash(repo, key)
            if h is not None:
                pins[pid][key] = h
    with open(PINFILE, 'w') as f:
        json.dump(pins, f, indent=1, sort_keys=True)
    return pins


_cur = {}


def current_hash(repo, key):
    f, rest = key.split('::', 1)
    kind, rest = rest.split(' ', 1)
    name, occ = rest.rsplit('#', 1)
    occ = int(occ)
    if f not in _cur:
        try:
            _cur[f] = items_of(open(os.path.join(repo, f)).read())
        except OSError:
            _cur[f] = None
    if _cur[f] is None:
        return None
    s, its = _cur[f]
    for k, n, o, a, b in its:
        if k == kind and n == name and o == occ:
            return sha(norm(s[a:b + 1]))
    return None


def gen(repo, pins, prop):
    _cur.clear()
    with open(PINFILE) as f:
        allp = json.load(f)
    mine = allp.get(prop, {})
    changed = []
    for key, h in sorted(mine.items()):
        cur = current_hash(repo, key)
        if cur != h:
            changed.append('%s (%s)' % (key, 'not found' if cur is None else 'hash %s, pinned %s' % (cur, h)))
    if changed:
        raise TieError('anchored code of %s changed: %s; the hand-written model mirrors the pinned text' % (prop, '; '.join(changed[:6])))
    return None, {'pinned_items': len(mine)}


if __name__ == '__main__':
    if len(sys.argv) > 1 and sys.argv[1] == '--learn':
        pins = learn('/repo', os.path.join(os.path.dirname(HERE), 'properties.jsonl'))
        for pid in sorted(pins):
            print(pid, len(pins[pid]))
    else:
        for pid in ['C%02d' % i for i in range(1, 21)]:
            try:
                print(pid, gen('/repo', {}, pid)[1])
            except TieError as e:
                print(pid, 'TIE', e)
