"""Translator: protocol code-point tables  /repo/src/**  ->  coq/Gen/EnumTables.v

Recognised shapes (anything else raises TieError = broken tie):
  * every `typeenum!(Name, ty, {n => V,...} [, {range => V,...}])` invocation
  * the `typeenum!` macro definition itself (pinned by normal-form hash)
  * the `afisafi!{...}` invocation and the pinned macro definition
  * the `path_attributes!(...)` invocation (code => Name(..), flags) and the pinned
    `From<u8> for PathAttributeType` / `From<PathAttributeType> for u8` arms in the macro
  * hand-written matches: AddpathDirection (TryFrom<u8> / From<..> for u8),
    SegmentType (same), Details::raw / NotificationMessage::details
"""
import hashlib
import os
import re
import sys

sys.path.insert(0, os.path.dirname(__file__))
from rsparse import (TieError, strip_comments, match_close, split_top, norm,
                     parse_int, match_arms, find_fn, find_item, line_of, find_match)

# Normal-form hashes of the macro definitions whose *expansion* the Coq model
# (Model/Enums.v: of_int / to_int / afisafi_of / ...) mirrors.  If the macro text
# changes, the tie is broken until a human has re-read it.
PINNED = {
    'typeenum': None,   # filled in below (see PINNED_HASHES)
}


def sha(s):
    return hashlib.sha256(s.encode()).hexdigest()[:16]


def read(repo, rel):
    with open(os.path.join(repo, rel)) as f:
        return f.read()


def macro_def(src, name):
    m = re.search(r'macro_rules!\s+' + name + r'\s*\{', src)
    if not m:
        raise TieError('macro_rules! %s not found' % name)
    o = m.end() - 1
    c = match_close(src, o)
    return src[o:c + 1]


def typeenum_invocations(src, rel):
    """Yield (name, width, singles [(code, Variant)], ranges [(lo, hi|None, Variant)], line)."""
    out = []
    for m in re.finditer(r'\btypeenum!\s*\(', src):
        o = m.end() - 1
        c = match_close(src, o)
        inner = src[o + 1:c]
        if '$' in inner:
            continue  # inside a macro definition (afisafi!: handled there; typeenum! doc)
        # drop attributes  #[...]
        inner2 = inner
        while True:
            mm = re.match(r'\s*#\s*\[', inner2)
            if not mm:
                break
            k = match_close(inner2, mm.end() - 1)
            inner2 = inner2[k + 1:]
        parts = split_top(inner2)
        if len(parts) not in (3, 4):
            raise TieError('%s:%d typeenum! with %d parts' % (rel, line_of(src, o), len(parts)))
        name = parts[0].strip()
        ty = parts[1].strip()
        if ty not in ('u8', 'u16', 'u32'):
            raise TieError('%s: typeenum %s has type %s' % (rel, name, ty))
        width = {'u8': 8, 'u16': 16, 'u32': 32}[ty]
        blk = parts[2].strip()
        if not (blk.startswith('{') and blk.endswith('}')):
            raise TieError('%s: typeenum %s block' % (rel, name))
        singles = []
        for arm in split_top(blk[1:-1]):
            if not arm.strip():
                continue
            k, v = arm.split('=>')
            singles.append((parse_int(k), v.strip()))
        ranges = []
        if len(parts) == 4:
            blk = parts[3].strip()
            if not (blk.startswith('{') and blk.endswith('}')):
                raise TieError('%s: typeenum %s range block' % (rel, name))
            for arm in split_top(blk[1:-1]):
                if not arm.strip():
                    continue
                k, v = arm.split('=>')
                k = k.strip()
                mm = re.fullmatch(r'(\w+)\s*\.\.=\s*(\w+)', k)
                if mm:
                    ranges.append((parse_int(mm.group(1)), parse_int(mm.group(2)), v.strip()))
                    continue
                mm = re.fullmatch(r'(\w+)\s*\.\.', k)
                if mm:
                    ranges.append((parse_int(mm.group(1)), None, v.strip()))
                    continue
                n = parse_int(k)
                ranges.append((n, n, v.strip()))
        out.append((name, width, singles, ranges, line_of(src, o)))
    return out


def parse_afisafi(src):
    m = re.search(r'\bafisafi!\s*\{', src)
    if not m:
        raise TieError('afisafi! invocation not found')
    o = m.end() - 1
    c = match_close(src, o)
    inner = src[o + 1:c]
    afis = []
    entries = []
    for part in split_top(inner):
        part = part.strip()
        if not part:
            continue
        mm = re.match(r'(\w+)\s*=>\s*(\w+)\s*\[', part)
        if not mm:
            raise TieError('afisafi! entry: %r' % part[:40])
        afi_code = parse_int(mm.group(1))
        afi_name = mm.group(2)
        afis.append((afi_code, afi_name))
        bo = part.index('[')
        bc = match_close(part, bo)
        for s in split_top(part[bo + 1:bc]):
            s = s.strip()
            if not s:
                continue
            ms = re.fullmatch(r'(\w+)\s*=>\s*(\w+)\s*(<\s*(\w+)\s*>)?', s)
            if not ms:
                raise TieError('afisafi! safi entry: %r' % s)
            entries.append((afi_code, parse_int(ms.group(1)), afi_name + ms.group(2),
                            ms.group(4) is not None))
    return afis, entries


def parse_path_attributes(src):
    m = re.search(r'\bpath_attributes!\s*\(', src)
    if not m:
        raise TieError('path_attributes! invocation not found')
    o = m.end() - 1
    c = match_close(src, o)
    rows = []
    parts = split_top(src[o + 1:c])
    # entries are "code => Name(type), flags" : split_top on ',' yields pairs
    i = 0
    while i < len(parts):
        p = parts[i].strip()
        if not p:
            i += 1
            continue
        mm = re.fullmatch(r'(\w+)\s*=>\s*(\w+)\s*\((.*)\)', p, re.S)
        if not mm or i + 1 >= len(parts):
            raise TieError('path_attributes! entry: %r' % p[:60])
        flags = parts[i + 1].strip()
        rows.append((parse_int(mm.group(1)), mm.group(2), norm(mm.group(3)), flags))
        i += 2
    return rows


def simple_int_match(body, rel, what):
    """`match x { 1 => Ok(Self::A), ... _ => Err(..) }` -> [(code, Variant)], has_catch"""
    _, mb, _ = find_match(body)
    fwd = []
    catch = None
    for pat, expr in match_arms(mb):
        e = norm(expr)
        if pat == '_' or re.fullmatch(r'[a-z_]\w*', pat):
            catch = e
            continue
        mm = re.fullmatch(r'(?:Ok\()?(?:\w+::)?(\w+)\)?', e)
        if not mm:
            raise TieError('%s: %s arm %r => %r' % (rel, what, pat, e))
        fwd.append((parse_int(pat), mm.group(1)))
    return fwd, catch


def simple_variant_match(body, rel, what):
    """`match v { T::A => 1, ... }` -> [(Variant, code)]"""
    _, mb, _ = find_match(body)
    out = []
    for pat, expr in match_arms(mb):
        mm = re.fullmatch(r'(?:\w+::)?(\w+)', pat.strip())
        if not mm:
            raise TieError('%s: %s arm %r' % (rel, what, pat))
        out.append((mm.group(1), parse_int(expr)))
    return out


def impl_block(src, header_re):
    m, body, off = find_item(src, header_re)
    return body


# ---------------------------------------------------------------------------

PINNED_HASHES = {
    # name: (file, sha of norm(macro definition))
    'typeenum': ('src/util/macros.rs', 'PIN_TYPEENUM'),
    'afisafi': ('src/bgp/nlri/afisafi.rs', 'PIN_AFISAFI'),
}


def coq_list(items):
    return '[' + '; '.join(items) + ']'


def coq_str(s):
    return '"' + s.replace('"', '""') + '"'


def gen(repo, pins):
    """Returns (coq_text, info dict). `pins` maps pin name -> expected hash (or None to learn)."""
    info = {'enums': [], 'pins': {}}
    lines = []
    A = lines.append
    A('(* GENERATED by tools/gen_enums.py from /repo on every run - do not edit, not committed. *)')
    A('From Coq Require Import List NArith String.')
    A('From RC Require Import Model.Enums.')
    A('Import ListNotations.')
    A('Open Scope N_scope.')
    A('Open Scope string_scope.')
    A('')

    # --- pinned macro definitions
    macros_src = strip_comments(read(repo, 'src/util/macros.rs'))
    te_def = norm(macro_def(macros_src, 'typeenum'))
    info['pins']['typeenum'] = sha(te_def)
    afisafi_src = strip_comments(read(repo, 'src/bgp/nlri/afisafi.rs'))
    as_def = norm(macro_def(afisafi_src, 'afisafi'))
    info['pins']['afisafi'] = sha(as_def)
    pa_src = strip_comments(read(repo, 'src/bgp/path_attributes.rs'))
    pa_def = macro_def(pa_src, 'path_attributes')
    # only the PathAttributeType part of that macro matters for the code points
    i0 = pa_def.index('pub enum PathAttributeType')
    i1 = pa_def.index('impl AttributeHeader for')
    info['pins']['path_attribute_type'] = sha(norm(pa_def[i0:i1]))
    for k, v in info['pins'].items():
        if pins.get(k) is not None and pins[k] != v:
            raise TieError('macro definition %s changed: normal-form hash %s, pinned %s '
                           '(the Coq interpreter in Model/Enums.v mirrors the pinned text)'
                           % (k, v, pins[k]))

    # --- typeenum! invocations
    files = []
    for root, _, fs in os.walk(os.path.join(repo, 'src')):
        for f in sorted(fs):
            if f.endswith('.rs'):
                files.append(os.path.relpath(os.path.join(root, f), repo))
    files.sort()
    names_seen = {}
    enum_defs = []
    for rel in files:
        src = strip_comments(read(repo, rel))
        for (name, width, singles, ranges, ln) in typeenum_invocations(src, rel):
            modname = re.sub(r'[^A-Za-z0-9]', '_', rel[4:-3])
            ident = 'te_%s_%s' % (modname, name)
            variants = []
            for _, v in singles:
                if v not in variants:
                    variants.append(v)
            for _, _, v in ranges:
                if v not in variants:
                    variants.append(v)
            vidx = {v: i for i, v in enumerate(variants)}
            fwd = ['(%d, %d)' % (c, vidx[v]) for c, v in singles]
            # reverse match generated by the macro: `$name::$y => $x` per single arm;
            # Rust takes the first arm for a variant
            bwd = []
            seen = set()
            for c, v in singles:
                if v in seen:
                    continue
                seen.add(v)
                bwd.append('(%d, %d)' % (vidx[v], c))
            rng = ['(%d, %s, %d)' % (lo, 'Some %d' % hi if hi is not None else 'None', vidx[v])
                   for lo, hi, v in ranges]
            A('(* %s:%d typeenum!(%s, u%d) *)' % (rel, ln, name, width))
            A('Definition %s : enum_tbl := mk_enum %s %s %s true.' %
              (ident, coq_list(fwd), coq_list(rng), coq_list(bwd)))
            A('Definition %s_names : list string := %s.' % (ident, coq_list([coq_str(v) for v in variants])))
            enum_defs.append((ident, name, rel, width, variants, singles, ranges))
    # --- Afi (typeenum inside afisafi!) and the AFI/SAFI table
    afis, entries = parse_afisafi(afisafi_src)
    variants = [n for _, n in afis]
    A('(* src/bgp/nlri/afisafi.rs afisafi!{..}: Afi *)')
    A('Definition te_afi : enum_tbl := mk_enum %s [] %s true.' % (
        coq_list(['(%d, %d)' % (c, i) for i, (c, _) in enumerate(afis)]),
        coq_list(['(%d, %d)' % (i, c) for i, (c, _) in enumerate(afis)])))
    A('Definition te_afi_names : list string := %s.' % coq_list([coq_str(v) for v in variants]))
    enum_defs.append(('te_afi', 'Afi', 'src/bgp/nlri/afisafi.rs', 16, variants,
                      [(c, n) for c, n in afis], []))
    A('Definition afisafi_table : afisafi_tbl := mk_afisafi %s.' % coq_list(
        ['(%d, %d, %d)' % (a, s, i) for i, (a, s, _, _) in enumerate(entries)]))
    A('Definition afisafi_names : list string := %s.' % coq_list([coq_str(n) for _, _, n, _ in entries]))
    info['afisafi'] = [(a, s, n) for a, s, n, _ in entries]

    # --- path_attributes!: PathAttributeType in path_attributes.rs
    rows = parse_path_attributes(pa_src)
    A('(* src/bgp/path_attributes.rs path_attributes!(..): PathAttributeType (From<u8>, Into<u8>) *)')
    A('Definition te_pa_type : enum_tbl := mk_enum %s [] %s true.' % (
        coq_list(['(%d, %d)' % (c, i) for i, (c, _, _, _) in enumerate(rows)]),
        coq_list(['(%d, %d)' % (i, c) for i, (c, _, _, _) in enumerate(rows)])))
    A('Definition te_pa_type_names : list string := %s.' % coq_list([coq_str(n) for _, n, _, _ in rows]))
    enum_defs.append(('te_pa_type', 'path_attributes::PathAttributeType', 'src/bgp/path_attributes.rs', 8,
                      [n for _, n, _, _ in rows], [(c, n) for c, n, _, _ in rows], []))
    info['path_attributes'] = rows

    # --- hand-written: AddpathDirection, SegmentType
    for (rel, ty, ident) in (('src/bgp/types.rs', 'AddpathDirection', 'te_addpath_direction'),
                             ('src/bgp/aspath.rs', 'SegmentType', 'te_segment_type')):
        src = strip_comments(read(repo, rel))
        b1 = impl_block(src, r'impl\s+TryFrom<u8>\s+for\s+' + ty + r'\b')
        fb, _ = find_fn(b1, 'try_from')
        fwd, catch = simple_int_match(fb, rel, ty + '::try_from')
        if catch is None or not catch.startswith('Err('):
            raise TieError('%s: %s::try_from catch-all is %r' % (rel, ty, catch))
        b2 = impl_block(src, r'impl\s+From<' + ty + r'>\s+for\s+u8\b')
        fb2, _ = find_fn(b2, 'from')
        bwd = simple_variant_match(fb2, rel, ty + ' -> u8')
        variants = []
        for _, v in fwd:
            if v not in variants:
                variants.append(v)
        for v, _ in bwd:
            if v not in variants:
                variants.append(v)
        vidx = {v: i for i, v in enumerate(variants)}
        A('(* %s: %s TryFrom<u8> / From<%s> for u8 (hand-written matches) *)' % (rel, ty, ty))
        A('Definition %s : enum_tbl := mk_enum %s [] %s false.' % (
            ident, coq_list(['(%d, %d)' % (c, vidx[v]) for c, v in fwd]),
            coq_list(['(%d, %d)' % (vidx[v], c) for v, c in bwd])))
        A('Definition %s_names : list string := %s.' % (ident, coq_list([coq_str(v) for v in variants])))
        enum_defs.append((ident, ty, rel, 8, variants, fwd, []))
        info.setdefault('fallible', []).append((ident, ty, fwd, bwd))

    # --- hand-written: Header::msg_type (message type octet -> MsgType), a second decoder beside the typeenum! one
    rel = 'src/bgp/message/mod.rs'
    src = strip_comments(read(repo, rel))
    hb = impl_block(src, r'impl\s*<\s*Octs\s*:\s*Octets\s*>\s*Header<Octs>')
    fb, _ = find_fn(hb, 'msg_type')
    if not norm(fb).startswith('match self.0.as_ref()[18]{'):
        raise TieError('%s: Header::msg_type does not match on octet 18' % rel)
    _, mb, _ = find_match(fb)
    mt = [d for d in enum_defs if d[0] == 'te_bgp_message_mod_MsgType']
    if len(mt) != 1:
        raise TieError('typeenum! MsgType not found')
    mt_variants, mt_singles = mt[0][4], mt[0][5]
    mt_idx = {v: i for i, v in enumerate(mt_variants)}
    hfwd = []
    hcatch = False
    for pat, expr in match_arms(mb):
        e = norm(expr)
        if re.fullmatch(r'[a-z_]\w*', pat.strip()):
            if e != 'MsgType::Unimplemented(%s)' % pat.strip():
                raise TieError('%s: Header::msg_type catch-all arm is %r' % (rel, e))
            hcatch = True
            continue
        mm = re.fullmatch(r'MsgType::(\w+)', e)
        if not mm or mm.group(1) not in mt_idx:
            raise TieError('%s: Header::msg_type arm %r => %r' % (rel, pat, e))
        for alt in pat.split('|'):
            hfwd.append((parse_int(alt.strip()), mm.group(1)))
    if not hcatch:
        raise TieError('%s: Header::msg_type has no catch-all arm' % rel)
    hbwd = []
    seen = set()
    for c, v in mt_singles:
        if v not in seen:
            seen.add(v)
            hbwd.append((mt_idx[v], c))
    A('(* %s: Header::msg_type (hand-written match on octet 18), read back through u8::from(MsgType) *)' % rel)
    A('Definition te_header_msg_type : enum_tbl := mk_enum %s [] %s true.' % (
        coq_list(['(%d, %d)' % (c, mt_idx[v]) for c, v in hfwd]), coq_list(['(%d, %d)' % (i, c) for i, c in hbwd])))
    A('Definition te_header_msg_type_names : list string := %s.' % coq_list([coq_str(v) for v in mt_variants]))
    enum_defs.append(('te_header_msg_type', 'Header::msg_type', rel, 8, mt_variants, hfwd, []))

    # --- Details: NotificationMessage::details and Details::raw
    rel = 'src/bgp/message/notification.rs'
    src = strip_comments(read(repo, rel))
    te_by_name = {name: ident for (ident, name, r, *_rest) in enum_defs if r == rel}
    # enum Details { V, V(T), ... }
    _, dbody, _ = find_item(src, r'pub\s+enum\s+Details\b')
    dvariants = []
    dpayload = {}
    for part in split_top(dbody):
        part = part.strip()
        if not part:
            continue
        mm = re.fullmatch(r'(\w+)(?:\((.*)\))?', part, re.S)
        if not mm:
            raise TieError('Details variant %r' % part)
        dvariants.append(mm.group(1))
        dpayload[mm.group(1)] = norm(mm.group(2)) if mm.group(2) else None
    didx = {v: i for i, v in enumerate(dvariants)}
    ec_ident = te_by_name.get('ErrorCode')
    if ec_ident is None:
        raise TieError('typeenum ErrorCode not found')
    ec = [e for e in enum_defs if e[0] == ec_ident][0]
    ecidx = {v: i for i, v in enumerate(ec[4])}
    fb, _ = find_fn(src, 'details')
    # subraw definition must be the byte after the code
    if 'let subraw=self.octets.as_ref()[COFF+1];' not in norm(fb):
        raise TieError('details(): subraw is not octets[COFF+1]')
    if 'self.octets.as_ref()[COFF].into()' not in norm(find_fn(src, 'code')[0]):
        raise TieError('code(): not octets[COFF].into()')
    scrut, mb, _ = find_match(fb)
    if norm(scrut) != 'self.code()':
        raise TieError('details(): match scrutinee %r' % scrut)
    of_code = []
    unimpl_ok = False
    for pat, expr in match_arms(mb):
        e = norm(expr).strip('{}')
        mp = re.fullmatch(r'E::(\w+)(\((\w+)\))?', norm(pat))
        if not mp:
            raise TieError('details(): pattern %r' % pat)
        if mp.group(1) == 'Unimplemented':
            if e != 'S::Unimplemented(%s,subraw)' % mp.group(3):
                raise TieError('details(): Unimplemented arm is %r' % e)
            unimpl_ok = True
            continue
        me = re.fullmatch(r'S::(\w+)(\(subraw\.into\(\)\))?', e)
        if not me:
            raise TieError('details(): arm %r => %r' % (pat, e))
        dv = me.group(1)
        carries = me.group(2) is not None
        if carries:
            sub_ty = dpayload[dv]
            if sub_ty not in te_by_name:
                raise TieError('Details::%s payload type %r is not a typeenum' % (dv, sub_ty))
            of_code.append((ecidx[mp.group(1)], didx[dv], te_by_name[sub_ty]))
        else:
            if dpayload[dv] is not None:
                raise TieError('Details::%s built without payload' % dv)
            of_code.append((ecidx[mp.group(1)], didx[dv], None))
    if not unimpl_ok:
        raise TieError('details(): no Unimplemented arm')
    _, dimpl, _ = find_item(src, r'impl\s+Details\b')
    fb, _ = find_fn(dimpl, 'raw')
    scrut, mb, _ = find_match(fb)
    raw_rows = []
    unimpl_ok = False
    for pat, expr in match_arms(mb):
        p = norm(pat)
        e = norm(expr)
        mp = re.fullmatch(r'S::(\w+)(\((.*)\))?', p)
        if not mp:
            raise TieError('raw(): pattern %r' % pat)
        if mp.group(1) == 'Unimplemented':
            if mp.group(3) != 'code,subcode' or not e.endswith('[*code,*subcode]}'):
                raise TieError('raw(): Unimplemented arm %r' % e)
            unimpl_ok = True
            continue
        me = re.fullmatch(r'\{?\[(.*)\]\}?', e)
        if not me:
            raise TieError('raw(): arm %r' % e)
        c_e, s_e = split_top(me.group(1))
        c_e = c_e.strip()
        s_e = s_e.strip()
        if c_e == '0':
            # literal code 0: must be the number of the ErrorCode variant it stands for
            zero_variant = [v for (c, v) in ec[5] if c == 0]
            if not zero_variant:
                raise TieError('raw(): literal code 0 but ErrorCode has no 0')
            code_variant = zero_variant[0]
        else:
            mc = re.fullmatch(r'E::(\w+)\.into\(\)', c_e)
            if not mc:
                raise TieError('raw(): code expr %r' % c_e)
            code_variant = mc.group(1)
        dv = mp.group(1)
        if s_e == '0':
            raw_rows.append((didx[dv], ecidx[code_variant], None))
        elif mp.group(3) and s_e == '(*%s).into()' % mp.group(3):
            raw_rows.append((didx[dv], ecidx[code_variant], te_by_name[dpayload[dv]]))
        else:
            raise TieError('raw(): subcode expr %r' % s_e)
    if not unimpl_ok:
        raise TieError('raw(): no Unimplemented arm')
    A('(* %s: NotificationMessage::details / Details::raw *)' % rel)
    A('Definition details_error_code : enum_tbl := %s.' % ec_ident)
    A('Definition details_table : details_tbl := mk_details %s %s.' % (
        coq_list(['(%d, (%d, %s))' % (e, d, 'Some %s' % t if t else 'None') for e, d, t in of_code]),
        coq_list(['(%d, (%d, %s))' % (d, e, 'Some %s' % t if t else 'None') for d, e, t in raw_rows])))
    key_of_ident = {ident: '%s@%s' % (name, r) for (ident, name, r, *_x) in enum_defs}
    A('Definition details_sub_keys : list (N * string) := %s.' % coq_list(
        ['(%d, %s)' % (d, coq_str(key_of_ident[t])) for e, d, t in of_code if t]))
    A('Definition details_names : list string := %s.' % coq_list([coq_str(v) for v in dvariants]))
    info['details'] = {'variants': dvariants}

    A('')
    A('Definition all_enums : list (string * enum_tbl) := %s.' % coq_list(
        ['(%s, %s)' % (coq_str('%s@%s' % (name, rel)), ident) for (ident, name, rel, *_r) in enum_defs]))
    A('Definition all_enum_names : list (string * list string) := %s.' % coq_list(
        ['(%s, %s_names)' % (coq_str('%s@%s' % (name, rel)), ident) for (ident, name, rel, *_r) in enum_defs]))
    A('Definition all_enum_widths : list (string * N) := %s.' % coq_list(
        ['(%s, %d)' % (coq_str('%s@%s' % (name, rel)), width) for (ident, name, rel, width, *_r) in enum_defs]))
    info['enums'] = [{'ident': ident, 'name': name, 'file': rel, 'width': width,
                      'variants': variants, 'singles': singles, 'ranges': ranges}
                     for (ident, name, rel, width, variants, singles, ranges) in enum_defs]
    return '\n'.join(lines) + '\n', info


if __name__ == '__main__':
    import json
    text, info = gen(sys.argv[1] if len(sys.argv) > 1 else '/repo', {})
    sys.stdout.write(text)
    sys.stderr.write(json.dumps(info['pins']) + '\n')
