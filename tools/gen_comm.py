"""Translator: the data tables of src/bgp/communities.rs -> coq/Gen/CommTables.v

* the `wellknown!(Wellknown, hex => Variant, "primary" [, "secondary"]* ; ...)` invocation: value, variant name, print name,
  alternative names (strings become lists of character codes),
* the format string of the `Unrecognized` arm of the macro's Display ("0xFFFF{:04X}": prefix text, width, case),
* the `ExtendedCommunity::types` match: (first octet, second octet or a binder) => (type, subtype), and its catch-all,
* the declaration order of `ExtendedCommunityType` / `ExtendedCommunitySubType` (the model names these variants).

Everything else Model/Comm.v mirrors (the macro's method bodies, every FromStr / Display impl, the accessors, strip_as,
the Community precedence) is pinned by the hash of its normalised text (pins.json, key comm_pinned)."""
import os
import re
import sys
import hashlib

sys.path.insert(0, os.path.dirname(__file__))
from rsparse import TieError, strip_comments, norm, find_fn, find_item, match_close, match_arms, find_match, split_top, parse_int


def sha(s):
    return hashlib.sha256(s.encode()).hexdigest()[:16]


def codes(s):
    for ch in s:
        if ord(ch) > 126 or ord(ch) < 32:
            raise TieError('non-ASCII text in a community name: %r' % s)
    return '[' + '; '.join(str(ord(c)) for c in s) + ']'


def gen(repo, pins):
    with open(os.path.join(repo, 'src/bgp/communities.rs')) as f:
        raw = f.read()
    src = strip_comments(raw)
    # --- the wellknown! table
    m = re.search(r'\bwellknown!\(\s*Wellknown\s*,', src)
    if not m:
        raise TieError('wellknown!(Wellknown, ..) invocation not found')
    o = src.index('(', m.start())
    c = match_close(src, o)
    inner = src[m.end():c]
    rows = []
    for ent in inner.split(';'):
        ent = ent.strip()
        if not ent:
            continue
        mm = re.fullmatch(r'(0x[0-9A-Fa-f_]+)\s*=>\s*(\w+)\s*,\s*(.*)', ent, re.S)
        if not mm:
            raise TieError('wellknown!: unrecognised row %r' % ent)
        names = re.findall(r'"([^"\\]*)"', mm.group(3))
        rest = re.sub(r'"[^"\\]*"', '', mm.group(3))
        if not names or rest.replace(',', '').strip():
            raise TieError('wellknown!: unrecognised names in row %r' % ent)
        rows.append((parse_int(mm.group(1)), mm.group(2), names))
    if not rows:
        raise TieError('wellknown!: empty table')
    # --- the macro definition (method bodies are mirrored by hand)
    mm = re.search(r'macro_rules!\s*wellknown\s*\{', src)
    if not mm:
        raise TieError('macro_rules! wellknown not found')
    o2 = src.index('{', mm.start())
    c2 = match_close(src, o2)
    macro = src[o2:c2 + 1]
    mu = re.search(r'\$name::Unrecognized\(n\)\s*=>\s*write!\(f,\s*"([^"]*)\{:0(\d)([Xx])\}"\s*,\s*n\)', macro)
    if not mu:
        raise TieError('wellknown!: Display arm of Unrecognized not recognised')
    unrec_prefix, unrec_width, unrec_case = mu.group(1), int(mu.group(2)), mu.group(3)
    if unrec_width != 4:
        raise TieError('wellknown!: Unrecognized is printed with width %d; Model/Comm.v prints 4 hex digits' % unrec_width)
    macro_masked = macro.replace(mu.group(0), '#UNREC#')
    pinned = {'wellknown_macro': sha(norm(macro_masked))}
    # --- ExtendedCommunity::types
    mi = re.search(r'impl\s+ExtendedCommunity\b(?=\s*\{)', src)
    if not mi:
        raise TieError('impl ExtendedCommunity not found')
    body, _ = find_fn(src[mi.start():], 'types')
    scrut, mbody, mend = find_match(body)
    if norm(scrut) != 'self.0[0..2]':
        raise TieError('ExtendedCommunity::types: scrutinee changed: %r' % scrut)
    pinned['ext_types_frame'] = sha(norm(body[:body.index('match')] + '#MATCH#' + body[mend:]))
    trows = []
    catch = None
    for pat, expr in match_arms(mbody):
        p = norm(pat)
        e = norm(expr)
        if p == '_':
            if e != '(OtherType(self.0[0]),OtherSubType(self.0[0]))':
                raise TieError('ExtendedCommunity::types: catch-all changed: %s' % e)
            catch = True
            continue
        if catch:
            raise TieError('ExtendedCommunity::types: arm after the catch-all')
        mp = re.fullmatch(r'\[(0x[0-9A-Fa-f]+|\d+),(0x[0-9A-Fa-f]+|\d+|b)\]', p)
        me = re.fullmatch(r'\((\w+),(RouteTarget|RouteOrigin|OtherSubType\(b\))\)', e)
        if not mp or not me:
            raise TieError('ExtendedCommunity::types: unrecognised arm %s => %s' % (p, e))
        b1 = None if mp.group(2) == 'b' else parse_int(mp.group(2))
        if me.group(2) == 'OtherSubType(b)' and b1 is not None:
            raise TieError('ExtendedCommunity::types: OtherSubType(b) without binder in %s' % p)
        trows.append((parse_int(mp.group(1)), b1, me.group(1), me.group(2)))
    if not catch:
        raise TieError('ExtendedCommunity::types: no catch-all')
    _, tbody, _ = find_item(src, r'pub\s+enum\s+ExtendedCommunityType\b')
    tvars = [x.strip() for x in split_top(tbody) if x.strip()]
    if not tvars or tvars[-1] != 'OtherType(u8)' or any(not re.fullmatch(r'\w+', v) for v in tvars[:-1]):
        raise TieError('enum ExtendedCommunityType changed shape: %s' % tvars)
    _, sbody, _ = find_item(src, r'pub\s+enum\s+ExtendedCommunitySubType\b')
    svars = [x.strip() for x in split_top(sbody) if x.strip()]
    if svars != ['RouteTarget', 'RouteOrigin', 'OtherSubType(u8)']:
        raise TieError('enum ExtendedCommunitySubType changed: %s' % svars)
    for r in trows:
        if r[2] not in tvars[:-1]:
            raise TieError('ExtendedCommunity::types: unknown type %s' % r[2])
    # --- pinned bodies
    for key, hdr in (('community_from_str', r'impl\s+FromStr\s+for\s+Community\b'),
                     ('community_display', r'impl\s+Display\s+for\s+Community\b'),
                     ('impl_community', r'impl\s+Community\b(?=\s*\{)'),
                     ('impl_standard', r'impl\s+StandardCommunity\b(?=\s*\{)'),
                     ('standard_from_str', r'impl\s+FromStr\s+for\s+StandardCommunity\b'),
                     ('standard_display', r'impl\s+Display\s+for\s+StandardCommunity\b'),
                     ('standard_from_wk', r'impl\s+From<Wellknown>\s+for\s+StandardCommunity\b'),
                     ('tag_display', r'impl\s+Display\s+for\s+Tag\b'),
                     ('ext_from_str', r'impl\s+FromStr\s+for\s+ExtendedCommunity\b'),
                     ('ext_display', r'impl\s+Display\s+for\s+ExtendedCommunity\b'),
                     ('impl_v6ext', r'impl\s+Ipv6ExtendedCommunity\b(?=\s*\{)'),
                     ('v6ext_from_str', r'impl\s+FromStr\s+for\s+Ipv6ExtendedCommunity\b'),
                     ('v6ext_display', r'impl\s+Display\s+for\s+Ipv6ExtendedCommunity\b'),
                     ('impl_large', r'impl\s+LargeCommunity\b(?=\s*\{)'),
                     ('large_from_str', r'impl\s+FromStr\s+for\s+LargeCommunity\b'),
                     ('large_display', r'impl\s+Display\s+for\s+LargeCommunity\b')):
        _, b, _ = find_item(src, hdr)
        pinned[key] = sha(norm(b))
    # impl ExtendedCommunity without the types() match (that one is translated)
    _, eb, _ = find_item(src, r'impl\s+ExtendedCommunity\b(?=\s*\{)')
    tb, toff = find_fn(eb, 'types')
    pinned['impl_extended'] = sha(norm(eb[:toff] + '#TYPES#' + eb[toff + len(tb):]))
    pinned['strip_as'] = sha(norm(find_fn(src, 'strip_as')[0]))
    exp = pins.get('comm_pinned', {})
    if not pins.get('_learn'):
        for k, v in pinned.items():
            if exp.get(k) != v:
                raise TieError('communities.rs: %s changed (hash %s, pinned %s); Model/Comm.v mirrors the pinned text' % (k, v, exp.get(k)))
    info = {'pinned': pinned, 'wellknown_rows': len(rows), 'ext_type_rows': len(trows)}
    L = ['(* GENERATED by tools/gen_comm.py from /repo/src/bgp/communities.rs - do not edit. *)',
         'From Coq Require Import List NArith.', 'Import ListNotations.', 'Open Scope N_scope.', '',
         '(* wellknown!(..): (value, variant name, names accepted by FromStr; the first one is what Display prints) *)',
         'Definition wk_table : list (N * list N * list (list N)) := [']
    L.append(';\n'.join('  (%d, %s, [%s]) (* 0x%08X %s %s *)' % (h, codes(v), '; '.join(codes(n) for n in names), h, v, ' / '.join(names))
                        for h, v, names in rows))
    L.append('].')
    L.append('(* Display of Wellknown::Unrecognized(n): "%s{:04%s}" *)' % (unrec_prefix, unrec_case))
    L.append('Definition wk_unrec_prefix : list N := %s.' % codes(unrec_prefix))
    L.append('Definition wk_unrec_upper : bool := %s.' % ('true' if unrec_case == 'X' else 'false'))
    L.append('')
    L.append('Inductive ectype := %s | OtherType (b : N).' % ' | '.join(tvars[:-1]))
    L.append('Inductive ecsub := RouteTarget | RouteOrigin | OtherSubType (b : N).')
    L.append('Inductive ecsubpat := PRouteTarget | PRouteOrigin | POther.')
    L.append('(* ExtendedCommunity::types: (first octet, second octet or None for the binder b) => (type, subtype); first match wins;')
    L.append('   the catch-all is (OtherType(first octet), OtherSubType(first octet)) *)')
    L.append('Definition ext_type_rows : list (N * option N * ectype * ecsubpat) := [')
    L.append(';\n'.join('  (%d, %s, %s, %s)' % (a, 'None' if b is None else 'Some %d' % b, t,
                                               {'RouteTarget': 'PRouteTarget', 'RouteOrigin': 'PRouteOrigin'}.get(s, 'POther'))
                        for a, b, t, s in trows))
    L.append('].')
    L.append('')
    return '\n'.join(L), info


if __name__ == '__main__':
    import json
    pp = os.path.join(os.path.dirname(__file__), 'pins.json')
    pins = json.load(open(pp))
    if '--learn' in sys.argv:
        pins['_learn'] = True
    t, info = gen('/repo', pins)
    print(t)
    print(json.dumps(info, indent=1))
    if '--learn' in sys.argv:
        del pins['_learn']
        pins['comm_pinned'] = info['pinned']
        json.dump(pins, open(pp, 'w'), indent=1)
