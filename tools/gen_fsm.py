"""Translator: the (state, event) arms of Session::handle_event (fsm/session.rs) -> coq/Gen/FsmTable.v

Every arm is a list of statements; each statement is recognised exactly (normalised text) or the arm is rejected.  The OPEN
acceptance block (ASN check, ADD-PATH negotiation, NegotiatedConfig, KEEPALIVE, timers, OpenConfirm) is recognised as a whole
by the hash of its normalised text (pins.json, key fsm_open_blocks: {hash: 'true'|'false'} = whether it sends our OPEN first).
handle_msg, disconnect, tick's error paths and the timer methods are pinned by hash (key fsm_pinned): Model/Fsm.v mirrors them."""
import os
import re
import sys
import hashlib

sys.path.insert(0, os.path.dirname(__file__))
from rsparse import TieError, strip_comments, norm, find_fn, find_item, match_close, match_arms, find_match, split_top


def sha(s):
    return hashlib.sha256(s.encode()).hexdigest()[:16]


STATES = ['Idle', 'Connect', 'Active', 'OpenSent', 'OpenConfirm', 'Established']
EVENTS = ['ManualStart', 'ManualStop', 'AutomaticStart', 'ManualStartWithPassiveTcpEstablishment',
          'AutomaticStartWithPassiveTcpEstablishment', 'ConnectRetryTimerExpires', 'HoldTimerExpires', 'KeepaliveTimerExpires',
          'DelayOpenTimerExpires', 'TcpCrAcked', 'TcpConnectionConfirmed', 'TcpConnectionFails', 'BgpOpen', 'BgpHeaderErr',
          'BgpOpenMsgErr', 'NotifMsgVerErr', 'NotifMsg', 'KeepaliveMsg', 'UpdateMsg', 'UpdateMsgErr', 'BgpOpenWithDelayOpenTimerRunning']
TIMERS = {'connect_retry_timer': 'TCrt', 'hold_timer': 'THold', 'keepalive_timer': 'TKa', 'delay_open_timer': 'TDot'}
TOPS = {'start': 'OStart', 'stop_and_reset': 'OStop', 'reset': 'OReset'}
CONDS = {
    'self.attributes().delay_open()': 'CDelayOpenAttr',
    'self.attributes.delay_open()': 'CDelayOpenAttr',
    'self.delay_open_timer.is_running()': 'CDotRunning',
    'self.delay_open_timer.is_running()&&self.attributes().notification_without_open()': 'CDotAndNwo',
    'self.attributes().notification_without_open()': 'CNwo',
    'self.config.is_exact()': 'CExact',
}
DISC = {
    'DisconnectReason::Shutdown': 'DShutdown',
    'DisconnectReason::HoldTimerExpired': 'DHold',
    'DisconnectReason::FsmViolation(Some(FiniteStateMachineSubcode::UnexpectedMessageInOpenSentState.into()))': 'DFsm 1',
    'DisconnectReason::FsmViolation(Some(FiniteStateMachineSubcode::UnexpectedMessageInOpenConfirmState.into()))': 'DFsm 2',
    'DisconnectReason::FsmViolation(Some(FiniteStateMachineSubcode::UnexpectedMessageInEstablishedState.into()))': 'DFsm 3',
    'DisconnectReason::FsmViolation(Some(CeaseSubcode::ConnectionCollisionResolution.into()))': 'DCease 7',
}


def statements(body):
    """split a block body into top-level statements (text up to ';' at depth 0, or an if/else block)"""
    out = []
    i = 0
    n = len(body)
    while i < n:
        while i < n and body[i].isspace():
            i += 1
        if i >= n:
            break
        if body.startswith('if ', i) or body.startswith('if(', i):
            j = body.index('{', i)
            # condition may contain braces? not in this code
            c = match_close(body, j)
            k = c + 1
            while k < n and body[k].isspace():
                k += 1
            if body.startswith('else', k):
                j2 = body.index('{', k)
                c2 = match_close(body, j2)
                out.append(body[i:c2 + 1]); i = c2 + 1
            else:
                out.append(body[i:c + 1]); i = c + 1
            continue
        j = i
        while j < n:
            ch = body[j]
            if ch in '([{':
                j = match_close(body, j)
            elif ch == ';':
                break
            j += 1
        out.append(body[i:j].strip())
        i = j + 1
    return [s for s in out if s]


def translate(body, pins, learned):
    acts = []
    sts = statements(body)
    k = 0
    while k < len(sts):
        s = sts[k]
        t = norm(s)
        m = re.fullmatch(r'self\.(\w+)\.(start|stop_and_reset|reset)\(\)', t)
        if m and m.group(1) in TIMERS:
            acts.append('ATimer %s %s' % (TIMERS[m.group(1)], TOPS[m.group(2)]))
        elif t == 'self.reset_connect_retry_counter()':
            acts.append('AResetCrc')
        elif t == 'self.increase_connect_retry_counter()':
            acts.append('AIncCrc')
        elif t == 'self.send_open()':
            acts.append('ASendOpen')
        elif t == 'self.send_keepalive()':
            acts.append('ASendKeepalive')
        elif t == 'self.drop_connection()':
            acts.append('ADropConn')
        elif t in ('todo!()',):
            acts.append('ATodo')
        elif re.fullmatch(r'self\.set_state\(State::(\w+)\)', t):
            acts.append('ASetState S%s' % re.fullmatch(r'self\.set_state\(State::(\w+)\)', t).group(1))
        elif t.startswith('self.disconnect(') and t.endswith(')'):
            r = t[len('self.disconnect('):-1]
            if r not in DISC:
                raise TieError('handle_event: unrecognised disconnect reason %r' % r)
            acts.append('ADisconnect (%s)' % DISC[r])
        elif t.startswith('if'):
            j = s.index('{')
            cond = norm(s[2:j])
            if cond.startswith('(') and cond.endswith(')'):
                cond = cond[1:-1]
            if cond.startswith('!self.config.remote_asn_allowed('):
                # the OPEN acceptance block: everything from here to the end of the arm
                rest = norm(';'.join(sts[k:]))
                h = sha(rest)
                learned[h] = rest[:80]
                known = pins.get('fsm_open_blocks', {})
                if pins.get('_learn'):
                    acts.append('AOpenAccept false')
                elif h in known:
                    acts.append('AOpenAccept %s' % known[h])
                else:
                    raise TieError('handle_event: the OPEN acceptance block changed (hash %s)' % h)
                return acts
            if cond not in CONDS:
                raise TieError('handle_event: unrecognised condition %r' % cond)
            c = match_close(s, j)
            then_b = s[j + 1:c]
            rest = s[c + 1:].strip()
            else_b = ''
            if rest.startswith('else'):
                j2 = rest.index('{')
                else_b = rest[j2 + 1:match_close(rest, j2)]
            acts.append('AIf %s [%s] [%s]' % (CONDS[cond], '; '.join(translate(then_b, pins, learned)), '; '.join(translate(else_b, pins, learned))))
        else:
            raise TieError('handle_event: unrecognised statement %r' % t[:120])
        k += 1
    return acts


def gen(repo, pins):
    with open(os.path.join(repo, 'src/bgp/fsm/session.rs')) as f:
        src = strip_comments(f.read())
    src = re.sub(r'\b(?:warn|info|debug|error)!\((?:[^()]|\((?:[^()]|\([^()]*\))*\))*\)\s*;?', '', src)
    body, _ = find_fn(src, 'handle_event')
    scrut, mbody, mend = find_match(body)
    if norm(scrut) != '(self.state(),&event)':
        raise TieError('handle_event: match scrutinee changed: %r' % norm(scrut))
    if norm(body[mend:]) != 'Ok(())' or norm(body[:body.index('match')]) != 'use Event as E;use State as S;':
        raise TieError('handle_event: code around the match changed')
    learned = {}
    cells = {}
    for pat, expr in match_arms(mbody):
        p = norm(pat)
        if p == '(S::Unimplemented(_),_)':
            continue
        m = re.fullmatch(r'\((.*?),(.*)\)', p)
        if not m:
            raise TieError('handle_event: unrecognised pattern %r' % p)
        sts_ = [x for x in m.group(1).split('|')]
        evs = [x for x in m.group(2).split('|')]
        states = []
        for x in sts_:
            mm = re.fullmatch(r'S::(\w+)', x)
            if not mm or mm.group(1) not in STATES:
                raise TieError('handle_event: unrecognised state pattern %r' % x)
            states.append(mm.group(1))
        events = []
        for x in evs:
            mm = re.fullmatch(r'E::(\w+)(\(\w+\))?', x)
            if not mm or mm.group(1) not in EVENTS:
                raise TieError('handle_event: unrecognised event pattern %r' % x)
            events.append(mm.group(1))
        e = expr.strip()
        if e.startswith('{'):
            e = e[1:-1]
        acts = translate(e, pins, learned) if norm(e) not in ('', ) else []
        for st in states:
            for ev in events:
                if (st, ev) in cells:
                    continue      # an earlier arm wins, as in Rust
                cells[(st, ev)] = acts
    missing = [(s, e) for s in STATES for e in EVENTS if (s, e) not in cells]
    if missing:
        raise TieError('handle_event: no arm for %r' % missing[:5])
    pinned = {}
    for name in ('handle_msg', 'disconnect', 'drop_connection', 'send_open', 'send_notification', 'send_keepalive', 'set_negotiated_config',
                 'manual_start', 'connection_established', 'tick', 'parse_frame', 'read_frame', 'attach_stream', 'for_read_half'):
        pinned[name] = sha(norm(find_fn(src, name)[0]))
    with open(os.path.join(repo, 'src/bgp/fsm/timers.rs')) as f:
        tsrc = strip_comments(f.read())
    tsrc = re.sub(r'\b(?:warn|info|debug|error)!\((?:[^()]|\([^()]*\))*\)\s*;?', '', tsrc)
    for name in ('start', 'stop_and_reset', 'reset', 'is_running'):
        pinned['timer.' + name] = sha(norm(find_fn(tsrc, name)[0]))
    with open(os.path.join(repo, 'src/bgp/fsm/state_machine.rs')) as f:
        ssrc = strip_comments(f.read())
    _, dflt, _ = find_item(ssrc, r'impl\s+Default\s+for\s+SessionAttributes')
    pinned['attributes_default'] = sha(norm(dflt))
    with open(os.path.join(repo, 'src/bgp/message/mod.rs')) as f:
        msrc = strip_comments(f.read())
    pinned['read_message'] = sha(norm(find_fn(msrc, 'read_message')[0]))
    exp = pins.get('fsm_pinned', {})
    if not pins.get('_learn'):
        for k, v in pinned.items():
            if exp.get(k) != v:
                raise TieError('%s changed (hash %s, pinned %s); Model/Fsm.v mirrors the pinned text' % (k, v, exp.get(k)))
    info = {'cells': len(cells), 'open_blocks': learned, 'pinned': pinned,
            'todo_cells': sorted('%s/%s' % k for k, v in cells.items() if any('ATodo' in a for a in v))}
    lines = ['(* GENERATED by tools/gen_fsm.py from /repo - do not edit. *)',
             'From Coq Require Import List NArith.', 'Import ListNotations.',
             'Inductive fstate := %s.' % ' | '.join('S' + s for s in STATES),
             'Inductive fevent := %s.' % ' | '.join('E' + e for e in EVENTS),
             'Inductive ftimer := TCrt | THold | TKa | TDot.',
             'Inductive ftop := OStart | OStop | OReset.',
             'Inductive fcond := CDelayOpenAttr | CDotRunning | CDotAndNwo | CNwo | CExact.',
             'Inductive fdisc := DShutdown | DHold | DFsm (sub : N) | DCease (sub : N) | DBadPeerAs.',
             'Inductive action :=',
             '| ATimer (t : ftimer) (o : ftop) | AResetCrc | AIncCrc | ASendOpen | ASendKeepalive | ADropConn | ATodo',
             '| ASetState (s : fstate) | ADisconnect (d : fdisc) | AIf (c : fcond) (a b : list action) | AOpenAccept (send_open_first : bool).',
             '(* Session::handle_event: the actions of the arm that matches (state, event), in source order *)',
             'Definition fsm_cell (s : fstate) (e : fevent) : list action :=',
             '  match s, e with']
    for s in STATES:
        for e in EVENTS:
            lines.append('  | S%s, E%s => [%s]' % (s, e, '; '.join(cells[(s, e)])))
    lines += ['  end.', '']
    return '\n'.join(lines), info


if __name__ == '__main__':
    import json
    pp = os.path.join(os.path.dirname(__file__), 'pins.json')
    pins = json.load(open(pp))
    if '--learn' in sys.argv:
        pins['_learn'] = True
    t, info = gen('/repo', pins)
    print(t[:3000])
    print(json.dumps(info, indent=1))
    if '--learn' in sys.argv:
        del pins['_learn']
        pins['fsm_pinned'] = info['pinned']
        json.dump(pins, open(pp, 'w'), indent=1)
