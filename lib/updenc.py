"""Reference UPDATE encoder (Python, from RFC 4271/4760/7911/...) and content generator for C01/C02/C07."""
import struct
from lib import nlrienc
from lib.bgpenc import bgp_header

CANON = {1: 0x40, 2: 0x40, 3: 0x40, 4: 0x80, 5: 0x40, 6: 0x40, 7: 0xc0, 8: 0xc0, 9: 0x80, 10: 0x80, 14: 0x80, 15: 0x80,
         16: 0xc0, 17: 0xc0, 18: 0xc0, 20: 0xc0, 21: 0xc0, 25: 0xc0, 32: 0xc0, 35: 0xc0, 128: 0xc0, 255: 0xc0}
SEGNAMES = {1: 'AS_SET', 2: 'AS_SEQUENCE', 3: 'AS_CONFED_SEQUENCE', 4: 'AS_CONFED_SET'}


def tlv(flags, code, value, force_ext=False):
    if len(value) > 255 or force_ext:
        return bytes([flags | 0x10, code]) + struct.pack('>H', len(value)) + value
    return bytes([flags & 0xef, code, len(value)]) + value


def enc_path(segs, four):
    out = b''
    for t, asns in segs:
        out += bytes([t, len(asns)]) + b''.join(a.to_bytes(4 if four else 2, 'big') for a in asns)
    return out


def hops_display(segs):
    out = []
    for t, asns in segs:
        if t == 2 and asns:
            out += ['AS%d' % a for a in asns]
        else:
            out.append('%s(%s)' % (SEGNAMES[t], ','.join('AS%d' % a for a in asns)))
    return '|'.join(out) if out else '-'


def rx(cfg, fam):
    d = dict(cfg['ap']).get(fam)
    return d in (1, 3)


def gen_cfg(rng):
    four = rng.chance(3, 4)
    ap = []
    for fam in nlrienc.FAMS:
        if rng.chance(1, 4):
            ap.append((nlrienc.AFISAFI[fam], rng.choice([1, 2, 3, 3])))
    return {'four': four, 'ap': ap}


def cfg_str(cfg):
    return '%d %s' % (1 if cfg['four'] else 0, ','.join('%d.%d:%d' % (f[0], f[1], d) for f, d in cfg['ap']) or '-')


NH_LEN = {'Ipv4Unicast': [4], 'Ipv4Multicast': [4], 'Ipv4RouteTarget': [4], 'L2VpnVpls': [4], 'L2VpnEvpn': [4],
          'Ipv6Unicast': [16, 32], 'Ipv6Multicast': [16], 'Ipv4MplsUnicast': [4, 16], 'Ipv6MplsUnicast': [4, 16],
          'Ipv4MplsVpnUnicast': [12], 'Ipv6MplsVpnUnicast': [24], 'Ipv4FlowSpec': [0], 'Ipv6FlowSpec': [0]}


def nh_display(fam, nh):
    n = len(nh)
    if fam.endswith('FlowSpec'):
        return 'empty'
    if n == 32:
        return 'll:%s:%s' % (nh[:16].hex(), nh[16:].hex())
    if n in (12, 24):
        return 'vpn:%s:%s' % (nh[:8].hex(), nh[8:].hex())
    return 'uni:' + nh.hex()


# value sizes of FlowSpec / EVPN NLRI: small ones and both sides of the one-/two-octet length boundary
BOUNDS = {'F': [0, 3, 4, 6, 7, 8, 12, 30, 100, 238, 239, 240, 241, 254, 255, 256, 257, 300],
          'E': [0, 3, 4, 6, 7, 8, 12, 30, 100, 254, 255]}


def gen_content(rng, cfg, size='normal'):
    """abstract UPDATE content + expected observations"""
    c = {'wd': [], 'ann': [], 'attrs': [], 'reach': None, 'unreach': None}
    exp = {}
    conv_ap = rx(cfg, (1, 1))
    nmax = {'small': 3, 'normal': 12, 'big': 200}[size]
    if rng.chance(1, 3):
        c['wd'] = [nlrienc.gen_value('Ipv4Unicast', rng, rng.below(1 << 32) if conv_ap else None) for _ in range(1 + rng.below(nmax))]
    has_ann = rng.chance(1, 2)
    if has_ann:
        c['ann'] = [nlrienc.gen_value('Ipv4Unicast', rng, rng.below(1 << 32) if conv_ap else None) for _ in range(1 + rng.below(nmax))]
    if rng.chance(1, 2):
        fam = rng.choice(nlrienc.FAMS)
        ap = rx(cfg, nlrienc.AFISAFI[fam])
        k = 1 + rng.below(min(nmax, 4 if nlrienc.kind(fam) == 'F' else nmax))
        nl = [nlrienc.gen_value(fam, rng, rng.below(1 << 32) if ap else None,
                                boundary=(rng.choice(BOUNDS[nlrienc.kind(fam)]) if nlrienc.kind(fam) in ('F', 'E') else None)) for _ in range(k)]
        nh = bytes(rng.below(256) for _ in range(rng.choice(NH_LEN[fam])))
        c['reach'] = (fam, nh, nl)
    if rng.chance(1, 3):
        fam = rng.choice(nlrienc.FAMS)
        ap = rx(cfg, nlrienc.AFISAFI[fam])
        k = rng.below(min(nmax, 4 if nlrienc.kind(fam) == 'F' else nmax) + 1)
        nl = [nlrienc.gen_value(fam, rng, rng.below(1 << 32) if ap else None,
                                boundary=(rng.choice(BOUNDS[nlrienc.kind(fam)]) if nlrienc.kind(fam) in ('F', 'E') else None)) for _ in range(k)]
        c['unreach'] = (fam, nl)
    c['reach_ext'], c['unreach_ext'], c['mp_first'] = rng.chance(1, 6), rng.chance(1, 6), rng.chance(1, 5)
    # attributes: a random subset in random order (codes unique)
    four = cfg['four']
    cand = [1, 2, 3, 4, 5, 6, 7, 8, 9, 10, 16, 17, 18, 20, 21, 25, 32, 35, 128, 255]
    chosen = [x for x in cand if rng.chance(1, 3)]
    if has_ann or c['reach']:
        for m in (1, 2):
            if m not in chosen:
                chosen.append(m)
    # shuffle
    for i in range(len(chosen) - 1, 0, -1):
        j = rng.below(i + 1)
        chosen[i], chosen[j] = chosen[j], chosen[i]
    attrs = []
    for code in chosen:
        ext = rng.chance(1, 6)
        if code == 1:
            v = bytes([rng.choice([0, 1, 2])]); exp['origin'] = str(v[0])
        elif code in (2, 17):
            segs = []
            for _ in range(rng.below(4)):
                t = rng.choice([2, 2, 2, 1, 3, 4])
                n = rng.choice([1, 2, 3, 5, 255]) if size == 'big' and rng.chance(1, 5) else rng.choice([0, 1, 2, 3, 5])
                segs.append((t, [rng.choice([1, 23456, 64512, 65535] + ([65536, 4200000000] if (four or code == 17) else [])) for _ in range(n)]))
            v = enc_path(segs, four or code == 17)
            exp['aspath' if code == 2 else 'as4path'] = hops_display(segs)
        elif code in (3, 9, 20):
            v = bytes(rng.below(256) for _ in range(4))
            if code == 3:
                exp['nh'] = 'uni:' + v.hex()
        elif code in (4, 5, 35):
            v = struct.pack('>I', rng.choice([0, 1, 100, 0xffffffff, rng.below(1 << 32)]))
            if code == 4:
                exp['med'] = str(struct.unpack('>I', v)[0])
            if code == 5:
                exp['lp'] = str(struct.unpack('>I', v)[0])
        elif code == 6:
            v = b''; exp['atomic'] = '1'
        elif code == 7:
            asn = rng.choice([1, 23456, 65535] + ([65536, 4200000000] if four else []))
            addr = bytes(rng.below(256) for _ in range(4))
            v = asn.to_bytes(4 if four else 2, 'big') + addr
            exp['agg'] = '%d:%s' % (asn, addr.hex())
        elif code == 18:
            v = struct.pack('>I', rng.below(1 << 32)) + bytes(rng.below(256) for _ in range(4))
        elif code in (8, 10, 16, 25, 32):
            k = {8: 4, 10: 4, 16: 8, 25: 20, 32: 12}[code]
            n = rng.choice([0, 1, 2, 3, 40]) if size != 'small' else rng.below(3)
            # repeated entries are legal on the wire and must survive: draw half of the lists from a pool of three values
            pool = [bytes(rng.below(256) for _ in range(k)) for _ in range(3)]
            items = [rng.choice(pool) if rng.chance(1, 2) else bytes(rng.below(256) for _ in range(k)) for _ in range(n)]
            v = b''.join(items)
            name = {8: 'comm', 16: 'ext', 25: 'v6ext', 32: 'large'}.get(code)
            if name:
                exp[name] = '%d[%s]' % (n, ','.join(i.hex() for i in items))
        elif code == 21:
            v = bytes([rng.below(256)]) + struct.pack('>I', rng.below(1 << 32))
        elif code == 128:
            v = struct.pack('>I', rng.below(1 << 32)) + bytes(rng.below(256) for _ in range(rng.choice([0, 3, 10])))
        else:
            v = bytes(rng.below(256) for _ in range(rng.choice([0, 1, 7])))
        attrs.append((CANON[code], code, v, ext))
    # a few unknown attributes
    for _ in range(rng.below(2)):
        code = rng.choice([11, 12, 13, 19, 22, 33, 40, 200])
        if code not in [a[1] for a in attrs]:
            attrs.insert(rng.below(len(attrs) + 1), (rng.choice([0x80, 0xc0, 0xe0, 0x40]), code, bytes(rng.below(256) for _ in range(rng.below(9))), rng.chance(1, 4)))
    c['attrs'] = attrs
    if c['attrs'] and rng.chance(1, 6):
        # flag bits that do not take part in recognising an attribute: Partial (legitimate on any optional transitive attribute
        # that passed a router not knowing it) and the four low bits, which are to be ignored on receipt
        k = rng.below(len(c['attrs']))
        f, code, v, ext = c['attrs'][k]
        c['attrs'][k] = (f | rng.choice([0x20, 0x20, 0x01, 0x0f, 0x28]), code, v, ext)
    return c, exp


def encode(c):
    """content -> (bytes, expected section observations)"""
    wd = b''.join(nlrienc.encode(v) for v in c['wd'])
    ann = b''.join(nlrienc.encode(v) for v in c['ann'])
    attrs = b''
    triples = []
    pos_mp = []
    for (flags, code, v, ext) in c['attrs']:
        attrs += tlv(flags, code, v, ext)
        e = len(v) > 255 or ext
        triples.append(((flags | 0x10) if e else (flags & 0xef), code, len(v)))
    # the MP attributes: behind the others, or in front of them (mp_first); with the extended-length form also for a short value
    # (reach_ext / unreach_ext)
    mp = b''
    mp_triples = []
    if c['reach']:
        fam, nh, nl = c['reach']
        a, s = nlrienc.AFISAFI[fam]
        v = struct.pack('>HBB', a, s, len(nh)) + nh + b'\x00' + b''.join(nlrienc.encode(x) for x in nl) + c.get('reach_garbage', b'')
        e = bool(c.get('reach_ext'))
        mp += tlv(0x80, 14, v, e)
        mp_triples.append((0x90 if (len(v) > 255 or e) else 0x80, 14, len(v)))
    if c['unreach']:
        fam, nl = c['unreach']
        a, s = nlrienc.AFISAFI[fam]
        v = struct.pack('>HB', a, s) + b''.join(nlrienc.encode(x) for x in nl) + c.get('unreach_garbage', b'')
        e = bool(c.get('unreach_ext'))
        mp += tlv(0x80, 15, v, e)
        mp_triples.append((0x90 if (len(v) > 255 or e) else 0x80, 15, len(v)))
    if c.get('mp_first'):
        attrs = mp + attrs
        triples = mp_triples + triples
    else:
        attrs += mp
        triples += mp_triples
    body = struct.pack('>H', len(wd)) + wd + struct.pack('>H', len(attrs)) + attrs + ann
    msg = bgp_header(19 + len(body), 2) + body
    return msg, {'len': len(msg), 'wd': len(wd), 'al': len(attrs), 'triples': triples}
