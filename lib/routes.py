"""Route lattice, textual route format and an independent Python reference of the RFC 4271
decision steps, shared by the C10 and C11 checks (generator + impl-side oracle)."""

FIELDS = ['dop', 'ibgp', 'local_asn', 'bgp_id', 'peer', 'origin', 'path', 'local_pref', 'med',
          'originator', 'cluster_len', 'rest']

LATTICE = {
    'dop': [None, 0, 100, 200],                      # an explicit degree of preference of 0 is not the same content as none
    'ibgp': [0, 1],
    'local_asn': [100, 100, 200],      # a route without a neighbour AS counts as coming from its own local AS: two local ASes
    'bgp_id': [1, 2, 0x01000002, 0x02000001],          # multi-octet identifiers: the octets order as a big-endian number
    # ::ffff:0.0.0.1 / ::ffff:0.0.0.2 are the IPv4-mapped forms of the first two: distinct addresses (every IPv4 address orders
    # before every IPv6 address) that canonicalising code would merge
    'peer': [(4, 1), (4, 2), (6, 1), (4, 0x01000002), (4, 0x02000001), (6, 0xffff00000001), (6, 0xffff00000002)],
    'origin': [None, 0, 1, 2, 3, 255],        # 3.. are unassigned ORIGIN codes (OriginType::Unimplemented): ordered after INCOMPLETE, by number
    'path': [None, (), ('a10',), ('a10', 'a20'), ('a30', 'a20'), ('s',), ('a10', 's'), ('o', 'a10'), ('a10', 'o'),
             ('a100', 'a20'), ('a10', 'c'), ('c', 'a10', 'a20'), ('a10', 's', 'c', 'o')],
    'local_pref': [None, 50, 150],
    'med': [None, 0, 10, 20],
    'originator': [None, 1, 3, 0x02000001, 0x01000003],
    'cluster_len': [None, 0, 2],
    'rest': [0, 7],
}


def fmt(r):
    def o(v):
        return '-' if v is None else str(v)
    path = r['path']
    ps = '-' if path is None else ('e' if len(path) == 0 else '.'.join(path))
    return ' '.join([o(r['dop']), str(r['ibgp']), str(r['local_asn']), str(r['bgp_id']),
                     '%d:%d' % r['peer'], o(r['origin']), ps, o(r['local_pref']), o(r['med']),
                     o(r['originator']), o(r['cluster_len']), str(r['rest'])])


def random_route(rng, eligible_only=False, narrow=None):
    while True:
        r = {}
        for f in FIELDS:
            vals = LATTICE[f]
            if narrow and f in narrow:
                vals = narrow[f]
            r[f] = vals[rng.below(len(vals))]
        if not eligible_only or eligible(r):
            return r


def neighbor(r):
    p = r['path']
    if p and p[0].startswith('a'):
        return int(p[0][1:])
    return None


def eligible(r):
    if r['origin'] is None or r['path'] is None:
        return False
    if r['ibgp'] == 0 and neighbor(r) is None:
        return False
    return True


def hopcount(r):
    return sum(1 for t in r['path'] if t.startswith('a') or t == 's')


def dop(r):
    if r['dop'] is not None:
        return r['dop']
    if r['ibgp'] == 1 and r['local_pref'] is not None:
        return r['local_pref']
    return 0


def cmpv(x, y):
    return -1 if x < y else (1 if x > y else 0)


def decide(strat, a, b):
    """RFC 4271 9.1.2.2 (+ RFC 4456): negative = a preferred."""
    c = cmpv(dop(b), dop(a))
    if c:
        return c
    c = cmpv(hopcount(a), hopcount(b))
    if c:
        return c
    c = cmpv(a['origin'], b['origin'])
    if c:
        return c
    if strat == 'R':
        na = neighbor(a) if neighbor(a) is not None else a['local_asn']
        nb = neighbor(b) if neighbor(b) is not None else b['local_asn']
        if na == nb:
            c = cmpv(a['med'] or 0, b['med'] or 0)
            if c:
                return c
    c = cmpv(a['ibgp'], b['ibgp'])
    if c:
        return c
    ia = a['originator'] if a['originator'] is not None else a['bgp_id']
    ib = b['originator'] if b['originator'] is not None else b['bgp_id']
    c = cmpv(ia, ib)
    if c:
        return c
    c = cmpv(a['cluster_len'] or 0, b['cluster_len'] or 0)
    if c:
        return c
    return cmpv((a['peer'][0], a['peer'][1]), (b['peer'][0], b['peer'][1]))


def content(r):
    return tuple((f, r[f]) for f in FIELDS)


ORD = {-1: 'Lt', 0: 'Eq', 1: 'Gt'}
