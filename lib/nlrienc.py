"""Reference NLRI encoder (Python, from the RFCs) and value generators for C05 / C14 / C01."""
import struct

FAMS = ["Ipv4Unicast", "Ipv4Multicast", "Ipv4MplsUnicast", "Ipv4MplsVpnUnicast", "Ipv4RouteTarget",
        "Ipv4FlowSpec", "Ipv6Unicast", "Ipv6Multicast", "Ipv6MplsUnicast", "Ipv6MplsVpnUnicast", "Ipv6FlowSpec",
        "L2VpnVpls", "L2VpnEvpn"]
AFISAFI = {"Ipv4Unicast": (1, 1), "Ipv4Multicast": (1, 2), "Ipv4MplsUnicast": (1, 4), "Ipv4MplsVpnUnicast": (1, 128),
           "Ipv4RouteTarget": (1, 132), "Ipv4FlowSpec": (1, 133), "Ipv6Unicast": (2, 1), "Ipv6Multicast": (2, 2),
           "Ipv6MplsUnicast": (2, 4), "Ipv6MplsVpnUnicast": (2, 128), "Ipv6FlowSpec": (2, 133),
           "L2VpnVpls": (25, 65), "L2VpnEvpn": (25, 70)}
KIND = {"Unicast": 'P', "Multicast": 'P', "MplsUnicast": 'M', "MplsVpnUnicast": 'V', "RouteTarget": 'R',
        "FlowSpec": 'F', "Vpls": 'L', "Evpn": 'E'}


def kind(fam):
    for k, v in KIND.items():
        if fam.endswith(k) and not (k == "Unicast" and fam.endswith(("MplsUnicast", "MplsVpnUnicast"))):
            return v
    raise ValueError(fam)


def is_v6(fam):
    return fam.startswith("Ipv6")


def prefix_bytes(addr_int, plen, v6):
    w = 128 if v6 else 32
    nb = (plen + 7) // 8
    return addr_int.to_bytes(w // 8, 'big')[:nb]


def mask(addr_int, plen, v6):
    w = 128 if v6 else 32
    if plen == 0:
        return 0
    return addr_int & (((1 << plen) - 1) << (w - plen))


def enc_labels(labels):
    """labels: list of (value20, exp3, bottom) triples or raw 3-byte strings"""
    out = b''
    for l in labels:
        if isinstance(l, bytes):
            out += l
        else:
            v, e, s = l
            out += ((v << 4) | (e << 1) | s).to_bytes(3, 'big')
    return out


def encode(v):
    """v: dict(fam, pid (None|int), ...kind specific...) -> bytes"""
    k = kind(v['fam'])
    v6 = is_v6(v['fam'])
    if k == 'P':
        body = bytes([v['plen']]) + prefix_bytes(v['addr'], v['plen'], v6)
    elif k == 'M':
        lb = enc_labels(v['labels'])
        body = bytes([8 * len(lb) + v['plen']]) + lb + prefix_bytes(v['addr'], v['plen'], v6)
    elif k == 'V':
        lb = enc_labels(v['labels'])
        body = bytes([8 * (len(lb) + 8) + v['plen']]) + lb + v['rd'] + prefix_bytes(v['addr'], v['plen'], v6)
    elif k == 'R':
        body = bytes([min(255, 8 * len(v['raw']))]) + v['raw']      # 32 octets: the saturated length octet 255 reads back as 32
    elif k == 'F':
        n = len(v['raw'])
        body = (bytes([n]) if n < 240 else struct.pack('>H', 0xf000 | n)) + v['raw']
    elif k == 'L':
        body = struct.pack('>H', 17) + v['rd'] + struct.pack('>HHH', v['ve'], v['off'], v['size']) + v['lb'].to_bytes(3, 'big')
    elif k == 'E':
        body = bytes([v['type'], len(v['raw'])]) + v['raw']
    else:
        raise ValueError(k)
    if v.get('pid') is not None:
        body = struct.pack('>I', v['pid']) + body
    return body


def split34(n):
    for b in range(n // 4 + 1):
        if (n - 4 * b) % 3 == 0:
            return (n - 4 * b) // 3, b
    return None


def flow_v4_component(rng, room):
    """one well-formed IPv4 FlowSpec component of at most `room` octets (None if nothing fits): a prefix component of any length
    0..32, or a numeric / bitmask component whose operators use every operand width (1, 2, 4, 8 octets) and flag bit"""
    for _ in range(8):
        if rng.chance(1, 4):
            plen = rng.choice([0, 1, 8, 9, 16, 24, 25, 31, 32])
            nb = (plen + 7) // 8
            addr = bytearray(rng.below(256) for _ in range(nb))
            if plen % 8 and nb:
                addr[-1] &= (0xff << (8 - plen % 8)) & 0xff
            c = bytes([rng.choice([1, 2]), plen]) + bytes(addr)
        else:
            nops = 1 + rng.below(3)
            c = bytes([3 + rng.below(10)])
            for k in range(nops):
                lb = rng.choice([0, 0, 1, 2, 3])
                op = (lb << 4) | rng.below(16) | (0x40 if rng.chance(1, 3) else 0) | (0x80 if k == nops - 1 else 0)
                c += bytes([op]) + bytes(rng.below(256) for _ in range(1 << lb))
        if len(c) <= room:
            return c
    return None


def flow_v4_body(n, rng):
    """a valid IPv4 FlowSpec component list of exactly n octets (n = 0, 3, 4 or >= 6)"""
    while split34(n) is None:
        n -= 1
    out = b''
    # rich components first (every prefix length, every operand width), then 3- and 4-octet components to land on n exactly
    while n - len(out) >= 12 and rng.chance(3, 4):
        c = flow_v4_component(rng, n - len(out) - 6)
        if c is None or split34(n - len(out) - len(c)) is None:
            break
        out += c
    a, b = split34(n - len(out))
    parts = [bytes([3 + rng.below(6), 0x81 | (rng.below(8)), rng.below(256)]) for _ in range(a)] + \
            [bytes([4 + rng.below(4), 0x91 | (rng.below(8)), rng.below(256), rng.below(256)]) for _ in range(b)]
    for x in parts:
        out += x
    assert len(out) == n, (n, len(out))
    return out


def gen_value(fam, rng, pid=None, boundary=None):
    """random well-formed value of the family"""
    k = kind(fam)
    v6 = is_v6(fam)
    w = 128 if v6 else 32
    v = {'fam': fam, 'pid': pid}
    if k in ('P', 'M', 'V'):
        depth = 0
        if k != 'P':
            # the deepest stack the length octet can describe: 10 labels (240 bits) for labelled unicast, 7 (168 + 64 bits) with a
            # route distinguisher; one case in five sits on that limit or one below it
            top = 10 if k == 'M' else 7
            depth = rng.choice([top, top, top - 1]) if rng.chance(1, 5) else 1 + rng.below(top)
            def inner(rng):
                # label values from a small pool so that the special values 0 (explicit null) and 0x80000 occur inside a stack;
                # with the traffic-class bits clear those would be the compatibility stop labels, so they get a non-zero class
                val = rng.choice([0, 0x80000, 1, 0x7ffff, 0xfffff, rng.below(1 << 20), rng.below(1 << 20)])
                exp = rng.below(8)
                if val in (0, 0x80000) and exp == 0:
                    exp = 1 + rng.below(7)
                return (val, exp, 0)
            v['labels'] = [inner(rng) for _ in range(depth - 1)] + [(rng.choice([0, 0x80000, 3, rng.below(1 << 20)]), rng.below(8), 1)]
            if rng.chance(1, 8):
                v['labels'] = [bytes([0x80, 0, 0]) if rng.chance(1, 2) else bytes([0, 0, 0])]
                depth = 1
        overhead = 24 * depth + (64 if k == 'V' else 0)
        maxp = min(w, 255 - overhead)
        plen = rng.below(maxp + 1) if boundary is None else min(boundary, maxp)
        pat = rng.below(4)
        a = {0: (1 << w) - 1, 1: 1 << (w - 1), 2: rng.below(1 << w), 3: (1 << (w - plen)) if plen else 0}[pat]
        v['plen'] = plen
        v['addr'] = mask(a, plen, v6)
        if k == 'V':
            v['rd'] = bytes(rng.below(256) for _ in range(8))
    elif k == 'R':
        n = rng.choice([0, 4, 12, 12, 12, 31, 32, 1 + rng.below(32)])
        v['raw'] = bytes(rng.below(256) for _ in range(n))
    elif k == 'F':
        n = rng.choice([0, 3, 4, 6, 7, 8, 12, 30, 100, 238, 239, 240, 241, 300, 4094, 4095]) if boundary is None else boundary
        v['raw'] = bytes(rng.below(256) for _ in range(n)) if v6 else flow_v4_body(n, rng)
    elif k == 'L':
        v['rd'] = bytes(rng.below(256) for _ in range(8))
        v['ve'], v['off'], v['size'] = rng.below(65536), rng.below(65536), rng.below(65536)
        v['lb'] = rng.below(1 << 24)
    elif k == 'E':
        v['type'] = rng.choice([1, 2, 3, 4, 5, 0, 6, 255, rng.below(256)])
        n = rng.choice([0, 1, 25, 33, 254, 255, rng.below(256)]) if boundary is None else boundary
        v['raw'] = bytes(rng.below(256) for _ in range(n))
    return v
