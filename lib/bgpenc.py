"""Independent reference encoders (Python) used only to *generate* inputs; written from the RFCs,
not from routecore's builders."""
import struct

MARKER = b'\xff' * 16


def bgp_header(length, typ):
    return MARKER + struct.pack('>HB', length, typ)


def cap(code, value=b''):
    return bytes([code, len(value)]) + value


def param(typ, value):
    return bytes([typ, len(value)]) + value


def open_msg(asn16=65000, hold=90, bgpid=b'\x0a\x00\x00\x01', params=b'', version=4):
    body = bytes([version]) + struct.pack('>HH', asn16, hold) + bgpid + bytes([len(params)]) + params
    return bgp_header(19 + len(body), 1) + body


def addpath_value(famdirs):
    return b''.join(struct.pack('>HBB', a, s, d) for (a, s), d in famdirs)


def mp_value(a, s):
    return struct.pack('>HBB', a, 0, s)


def hexs(b):
    return b.hex() if b else '-'
