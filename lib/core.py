"""Shared machinery of ./check: translators, Coq build, hygiene, extraction,
harness build, diffing, evidence and violation reporting."""
import fcntl
import hashlib
import json
import os
import re
import subprocess
import sys
import time

VERIF = os.path.dirname(os.path.dirname(os.path.abspath(__file__)))
REPO = os.environ.get('VERIF_REPO', '/repo')
BUILD = os.path.join(VERIF, '.build')
COQ = os.path.join(VERIF, 'coq')
OCAML = os.path.join(VERIF, 'ocaml')
HARNESS = os.path.join(VERIF, 'harness')
CARGO_TARGET = os.path.join(BUILD, 'cargo-target')
GUARD = 'nlnetlabs_routecore_verif'

sys.path.insert(0, os.path.join(VERIF, 'tools'))


class CheckFailure(Exception):
    """Something that the property's check could not establish."""
    def __init__(self, kind, what, detail=''):
        super().__init__(what)
        self.kind = kind      # 'tie' | 'proof' | 'hygiene' | 'build' | 'corr' | 'oracle'
        self.what = what
        self.detail = detail


def log(msg):
    sys.stderr.write('[check] %s\n' % msg)
    sys.stderr.flush()


def sh(cmd, cwd=None, timeout=1800, env=None, check=False):
    e = dict(os.environ)
    e['CARGO_NET_OFFLINE'] = 'true'
    if env:
        e.update(env)
    t0 = time.time()
    try:
        p = subprocess.run(cmd, cwd=cwd, env=e, stdout=subprocess.PIPE, stderr=subprocess.STDOUT,
                           timeout=timeout, shell=isinstance(cmd, str))
        out = p.stdout.decode('utf-8', 'replace')
        rc = p.returncode
    except subprocess.TimeoutExpired as ex:
        out = (ex.stdout or b'').decode('utf-8', 'replace') + '\nTIMEOUT after %ds' % timeout
        rc = 124
    out = '\n'.join(l for l in out.split('\n') if 'auto_activate_base' not in l)
    if check and rc != 0:
        raise CheckFailure('build', 'command failed: %s' % (cmd if isinstance(cmd, str) else ' '.join(cmd)), out[-4000:])
    return rc, out, time.time() - t0


class Lock:
    def __init__(self, name):
        os.makedirs(BUILD, exist_ok=True)
        self.path = os.path.join(BUILD, name + '.lock')

    def __enter__(self):
        self.f = open(self.path, 'w')
        fcntl.flock(self.f, fcntl.LOCK_EX)
        return self

    def __exit__(self, *a):
        fcntl.flock(self.f, fcntl.LOCK_UN)
        self.f.close()


def write_if_changed(path, text):
    try:
        with open(path) as f:
            if f.read() == text:
                return False
    except FileNotFoundError:
        pass
    os.makedirs(os.path.dirname(path), exist_ok=True)
    with open(path, 'w') as f:
        f.write(text)
    return True


# ---------------------------------------------------------------- translators

def run_generators(needed):
    """Run every translator; a failure is fatal only for generators in `needed`
    (the property's cone).  Returns info dict per generator."""
    import importlib
    from rsparse import TieError
    with open(os.path.join(VERIF, 'tools', 'pins.json')) as f:
        pins = json.load(f)
    infos = {}
    gens = importlib.import_module('generators').GENERATORS
    for name, (fn, outfile) in gens.items():
        try:
            text, info = fn(REPO, pins)
            write_if_changed(os.path.join(COQ, 'Gen', outfile), text)
            info['source_sha'] = hashlib.sha256(text.encode()).hexdigest()[:16]
            infos[name] = info
        except (TieError, Exception) as ex:  # noqa
            if name in needed:
                raise CheckFailure('tie', 'translator %s no longer recognises the source: %s' % (name, ex))
            log('translator %s failed outside this property\'s cone (ignored): %s' % (name, ex))
            if not os.path.exists(os.path.join(COQ, 'Gen', outfile)):
                raise CheckFailure('tie', 'translator %s failed and no previous %s exists: %s' % (name, outfile, ex))
    return infos


def check_anchor_pins(pid):
    """tools/gen_anchors.py: the items (functions, enums, macros) the property's anchors point at, pinned by normal-form hash"""
    import importlib
    from rsparse import TieError
    ga = importlib.import_module('gen_anchors')
    try:
        _, info = ga.gen(REPO, {}, pid)
        return info
    except TieError as ex:
        raise CheckFailure('tie', str(ex))


# ---------------------------------------------------------------- Coq

def coq_project():
    files = []
    for d in ('Base', 'Model', 'Gen', 'Proofs', 'Props', 'Extract'):
        p = os.path.join(COQ, d)
        if os.path.isdir(p):
            for f in sorted(os.listdir(p)):
                if f.endswith('.v'):
                    files.append('%s/%s' % (d, f))
    text = '-Q . RC\n-arg -w -arg -notation-overridden\n' + '\n'.join(files) + '\n'
    changed = write_if_changed(os.path.join(COQ, '_CoqProject'), text)
    if changed or not os.path.exists(os.path.join(COQ, 'Makefile')):
        sh(['coq_makefile', '-f', '_CoqProject', '-o', 'Makefile'], cwd=COQ, check=True)


def coq_make(targets, timeout=1500, jobs=16):
    coq_project()
    rc, out, dt = sh(['make', '-j%d' % jobs] + targets, cwd=COQ, timeout=timeout)
    return rc, out, dt


THEOREM_RE = re.compile(r'^\s*Theorem\s+(\w+)', re.M)


def props_file(pid):
    return os.path.join(COQ, 'Props', '%s.v' % pid)


def list_theorems(pid):
    with open(props_file(pid)) as f:
        return THEOREM_RE.findall(f.read())


ALLOWED_AXIOMS = set()   # none: every property theorem must be closed under the global context


def build_props(pid):
    """Compile Props/<pid>.v (always recompiled so that Print Assumptions output is
    captured).  Returns (theorems, discharged, assumptions_report)."""
    vo = os.path.join(COQ, 'Props', '%s.vo' % pid)
    if os.path.exists(vo):
        os.remove(vo)
    rc, out, dt = coq_make(['Props/%s.vo' % pid])
    theorems = list_theorems(pid)
    if rc != 0:
        m = re.search(r'File "([^"]+)", line (\d+), characters [^\n]*\n(Error:.*?)(?:\nmake|\Z)', out, re.S)
        where = ('%s:%s %s' % (m.group(1), m.group(2), m.group(3).strip()[:600])) if m else out[-1500:]
        raise CheckFailure('proof', 'Coq build of Props/%s.v failed: %s' % (pid, where), out[-6000:])
    # Print Assumptions: one report per theorem, in order
    reports = re.findall(r'(Closed under the global context|Axioms:\n(?:.+\n)+?(?=\S|\Z))', out)
    closed = sum(1 for r in reports if r.startswith('Closed'))
    bad = [r for r in reports if not r.startswith('Closed')]
    if bad:
        raise CheckFailure('hygiene', 'Print Assumptions reports axioms under Props/%s.v: %s' % (pid, bad[0][:400]))
    if closed < len(theorems):
        raise CheckFailure('hygiene', 'only %d Print Assumptions reports for %d theorems in Props/%s.v'
                           % (closed, len(theorems), pid))
    return theorems, closed, dt


def coqchk_props(pid, timeout=1500):
    """thorough tier: the compiled Props/<pid>.vo and everything it depends on, re-checked by the independent checker coqchk;
    returns the axiom report (must be <none> in all four classes)"""
    rc, out, dt = sh(['coqchk', '-o', '-silent', '-Q', '.', 'RC', 'RC.Props.%s' % pid], cwd=COQ, timeout=timeout)
    if rc != 0:
        raise CheckFailure('proof', 'coqchk rejects Props/%s.vo or a file it depends on: %s' % (pid, out[-800:]))
    rep = {}
    for key, label in (('axioms', 'Axioms'), ('type_in_type', 'Constants/Inductives relying on type-in-type'),
                       ('unsafe_fixpoints', 'Constants/Inductives relying on unsafe (co)fixpoints'),
                       ('assumed_positive', 'Inductives whose positivity is assumed')):
        m = re.search(r'\* %s: *(.*?)(?=\n\* |\Z)' % re.escape(label), out, re.S)
        rep[key] = ' '.join(m.group(1).split()) if m else '?'
    bad = {k: v for k, v in rep.items() if v != '<none>'}
    if bad:
        raise CheckFailure('hygiene', 'coqchk reports for Props/%s.vo: %s' % (pid, bad))
    rep['seconds'] = round(dt, 1)
    return rep


HYGIENE_RE = re.compile(r'\b(Admitted|admit|Axiom|Axioms|Parameter|Parameters|Conjecture|Hypothesis|Variable|Variables|'
                        r'Admit Obligations|bypass_check|Unset Guard Checking|Unset Positivity Checking|'
                        r'Unset Universe Checking|type-in-type|impredicative-set|Abort)\b')


def hygiene():
    """No axioms / admits / disabled checks anywhere in the development
    (Variable/Hypothesis are allowed inside Sections only)."""
    bad = []
    for d in ('Base', 'Model', 'Gen', 'Proofs', 'Props', 'Extract'):
        p = os.path.join(COQ, d)
        if not os.path.isdir(p):
            continue
        for f in sorted(os.listdir(p)):
            if not f.endswith('.v'):
                continue
            with open(os.path.join(p, f)) as fh:
                text = fh.read()
            # strip comments
            text_nc = re.sub(r'\(\*.*?\*\)', lambda m: '\n' * m.group(0).count('\n'), text, flags=re.S)
            depth = 0
            for ln, line in enumerate(text_nc.split('\n'), 1):
                if re.match(r'\s*Section\b', line):
                    depth += 1
                if re.match(r'\s*End\b', line) and depth > 0:
                    depth -= 1
                for m in HYGIENE_RE.finditer(line):
                    w = m.group(1)
                    if w in ('Variable', 'Variables', 'Hypothesis') and depth > 0:
                        continue
                    bad.append('%s/%s:%d %s' % (d, f, ln, w))
    with open(os.path.join(COQ, '_CoqProject')) as fh:
        if re.search(r'type-in-type|impredicative-set|-noinit', fh.read()):
            bad.append('_CoqProject flags')
    if bad:
        raise CheckFailure('hygiene', 'forbidden constructs: ' + ', '.join(bad[:10]))


# ---------------------------------------------------------------- OCaml model + Rust harness

OCAML_SOURCES = ['rt.ml']


def build_model():
    """Extract the executable model and build .build/model."""
    with Lock('ocaml'):
        ml = os.path.join(OCAML, 'model.ml')
        before = os.path.getmtime(ml) if os.path.exists(ml) else 0
        vo = os.path.join(COQ, 'Extract', 'Extract.vo')
        rc, out, dt = coq_make(['Extract/Extract.vo'])
        if rc != 0:
            raise CheckFailure('build', 'extraction failed', out[-4000:])
        if not os.path.exists(ml):
            # .vo up to date but model.ml missing: force
            os.remove(vo)
            rc, out, dt = coq_make(['Extract/Extract.vo'])
        exe = os.path.join(BUILD, 'model')
        mls = ['model.ml', 'rt.ml'] + sorted(f for f in os.listdir(OCAML) if re.fullmatch(r'(m_\w+|c\d\d|main)\.ml', f))
        srcs = ['model.mli'] + mls
        newest = max(os.path.getmtime(os.path.join(OCAML, s)) for s in srcs)
        if os.path.exists(exe) and os.path.getmtime(exe) >= newest:
            return exe
        odir = os.path.join(BUILD, 'ocaml')
        os.makedirs(odir, exist_ok=True)
        for s in srcs:
            with open(os.path.join(OCAML, s)) as f:
                write_if_changed(os.path.join(odir, s), f.read())
        rc, out, dt = sh(['ocamlfind', 'ocamldep', '-sort'] + mls, cwd=odir, timeout=120)
        order = [x for x in out.split() if x.endswith('.ml')]
        if rc != 0 or set(order) != set(mls):
            raise CheckFailure('build', 'ocamldep -sort failed', out[-2000:])
        rc, out, dt = sh(['ocamlfind', 'ocamlopt', '-O2', '-w', '-a', 'model.mli'] + order + ['-o', exe], cwd=odir, timeout=900)
        if rc != 0:
            raise CheckFailure('build', 'ocamlopt failed', out[-4000:])
        return exe


def build_harness(release=False):
    with Lock('cargo'):
        lock = os.path.join(HARNESS, 'Cargo.lock')
        if not os.path.exists(lock):
            import shutil
            shutil.copy(os.path.join(REPO, 'Cargo.lock'), lock)
        cmd = ['cargo', 'build', '--offline', '--quiet'] + (['--release'] if release else [])
        rc, out, dt = sh(cmd, cwd=HARNESS, timeout=1500,
                         env={'RUSTFLAGS': '--cfg %s -Awarnings' % GUARD, 'CARGO_TARGET_DIR': CARGO_TARGET})
        if rc != 0:
            raise CheckFailure('build', 'the harness does not build against the current /repo', out[-5000:])
        return os.path.join(CARGO_TARGET, 'release' if release else 'debug', 'observe')


def run_tool(exe, args, timeout=900, stdin=None):
    t0 = time.time()
    try:
        p = subprocess.run([exe] + args, stdout=subprocess.PIPE, stderr=subprocess.PIPE, timeout=timeout,
                           input=stdin)
    except subprocess.TimeoutExpired:
        raise CheckFailure('corr', '%s %s timed out after %ds' % (os.path.basename(exe), ' '.join(args[:3]), timeout))
    if p.returncode != 0:
        raise CheckFailure('corr', '%s %s exited %d: %s' % (os.path.basename(exe), ' '.join(args[:3]), p.returncode,
                                                           p.stderr.decode('utf-8', 'replace')[-800:]))
    return p.stdout.decode('utf-8', 'replace').split('\n'), time.time() - t0


def run_tool_sharded(exe, args, path, shards=16, timeout=2400, min_lines=4000, interleave=False):
    """run `exe args... <case file>` on the case file cut into `shards` pieces of whole lines, in parallel; the outputs are
    concatenated in order (every tool handles its case lines independently of each other).  interleave: shard i gets the lines
    i, i + shards, ... (expensive cases that sit next to each other are spread out); needs a tool that prints one line per case
    line - checked, with the unsharded run as the fallback"""
    with open(path) as f:
        lines = f.read().split('\n')
    if lines and lines[-1] == '':
        lines.pop()
    if len(lines) < min_lines or shards <= 1:
        return run_tool(exe, args + [path], timeout=timeout)
    import concurrent.futures
    t0 = time.time()
    n = (len(lines) + shards - 1) // shards
    parts = []
    for i in range(shards):
        chunk = lines[i::shards] if interleave else lines[i * n:(i + 1) * n]
        if not chunk:
            break
        pp = '%s.shard%d' % (path, i)
        with open(pp, 'w') as f:
            f.write('\n'.join(chunk) + '\n')
        parts.append(pp)
    with concurrent.futures.ThreadPoolExecutor(max_workers=len(parts)) as ex:
        outs = list(ex.map(lambda pp: run_tool(exe, args + [pp], timeout=timeout)[0], parts))
    for pp in parts:
        try:
            os.remove(pp)
        except OSError:
            pass
    outs = [o[:-1] if o and o[-1] == '' else o for o in outs]
    if interleave:
        if [len(o) for o in outs] != [len(lines[i::shards]) for i in range(len(outs))]:
            return run_tool(exe, args + [path], timeout=timeout)
        out = [None] * len(lines)
        for i, o in enumerate(outs):
            out[i::shards] = o
    else:
        out = []
        for o in outs:
            out.extend(o)
    out.append('')
    return out, time.time() - t0


# ---------------------------------------------------------------- diff helpers

def diff_lines(model, impl, sort=False, limit=5):
    """Return list of (index, model_line, impl_line) that differ."""
    m = [l for l in model if l and not l.startswith('#')]
    i = [l for l in impl if l and not l.startswith('#')]
    if sort:
        m = sorted(m)
        i = sorted(i)
    out = []
    for k in range(max(len(m), len(i))):
        a = m[k] if k < len(m) else '<missing>'
        b = i[k] if k < len(i) else '<missing>'
        if a != b:
            out.append((k, a, b))
            if len(out) >= limit:
                break
    return out


class SplitMix:
    def __init__(self, seed):
        self.s = seed & 0xFFFFFFFFFFFFFFFF

    def next(self):
        self.s = (self.s + 0x9E3779B97F4A7C15) & 0xFFFFFFFFFFFFFFFF
        z = self.s
        z = ((z ^ (z >> 30)) * 0xBF58476D1CE4E5B9) & 0xFFFFFFFFFFFFFFFF
        z = ((z ^ (z >> 27)) * 0x94D049BB133111EB) & 0xFFFFFFFFFFFFFFFF
        return z ^ (z >> 31)

    def below(self, n):
        return self.next() % n if n > 0 else 0

    def choice(self, l):
        return l[self.below(len(l))]

    def chance(self, num, den):
        return self.below(den) < num

    def bytes(self, n):
        return bytes(self.below(256) for _ in range(n))

    def addr(self, v6):
        """an IPv4 / IPv6 address, special forms included (v4-mapped, v4-compatible, runs of leading zero octets, loopback,
        unspecified, all ones, NAT64) - the forms address handling code likes to treat specially"""
        if not v6:
            return self.choice([self.bytes(4), self.bytes(4), b'\x00\x00\x00\x00', b'\xff\xff\xff\xff', b'\x7f\x00\x00\x01', b'\x00' + self.bytes(3)])
        k = self.below(12)
        if k < 5:
            return self.bytes(16)
        if k == 5:
            return bytes(10) + b'\xff\xff' + self.bytes(4)            # ::ffff:a.b.c.d
        if k == 6:
            return bytes(12) + self.bytes(4)                            # ::a.b.c.d
        if k == 7:
            z = self.choice([8, 9, 10, 11, 13, 14, 15])
            return bytes(z) + bytes([1 + self.below(255)]) + self.bytes(15 - z)
        if k == 8:
            return self.choice([bytes(16), bytes(15) + b'\x01', b'\xff' * 16])
        if k == 9:
            return b'\x00\x64\xff\x9b' + bytes(8) + self.bytes(4)    # 64:ff9b::a.b.c.d
        if k == 10:
            return bytes(10) + b'\xff\xfe' + self.bytes(4)
        return b'\xfe\x80' + bytes(6) + self.bytes(8)


def case_dir(pid):
    d = os.path.join(BUILD, 'cases', pid)
    os.makedirs(d, exist_ok=True)
    return d
