"""C02 - no byte sequence can panic or hang UPDATE decoding or its accessors."""
import os
import struct
from lib import core, nlrienc, updenc
from lib.core import CheckFailure

GENERATORS = ['attrs', 'enums']
TRUSTED_BASE = [
    'Coq 8.16.1 kernel (coqc); no axioms',
    'hand-written Model/Update.v and the C04/C05/C13 models it uses, with every Rust panic site (slice index, unwrap/expect, with_range, u8 arithmetic) an explicit Panic branch; tied by the correspondence run on malformed and mutated inputs',
    'extraction: ExtrOcamlBasic only; ocaml/c01.ml, harness/src/c01.rs (catch_unwind around every accessor, item caps as hang detector)',
]
ASSUMPTIONS = [
    'accessors modelled: length/section lengths, path_attributes + to_owned + compose of every item, origin/aspath/as4path/next hop/MED/LOCAL_PREF/atomic/aggregator, the four community iterators and all_communities, conventional and MP NLRI iterators, combined iterators, *_vec, afi_safis, is_eor, mp_next_hop, PaMap::from_update_pdu; other public accessors (typed_*, find_next_hop, human-readable variants) are thin wrappers over these and are exercised by the harness only',
]


def mutate(rng, msg):
    b = bytearray(msg)
    mode = rng.below(10)
    if mode == 0 and len(b) > 19:
        i = 19 + rng.below(len(b) - 19); b[i] ^= 1 << rng.below(8)
    elif mode == 1:
        b[16:18] = struct.pack('>H', rng.choice([0, 18, 19, 22, 23, len(b) - 1, len(b) + 1, 4096, 65535, rng.below(65536)]))
    elif mode == 2 and len(b) > 21:
        b[19:21] = struct.pack('>H', rng.choice([0, 1, 0xffff, max(0, struct.unpack('>H', bytes(b[19:21]))[0] + rng.choice([-1, 1]))]) & 0xffff)
    elif mode == 3 and len(b) > 23:
        wl = struct.unpack('>H', bytes(b[19:21]))[0]
        p = 21 + wl
        if p + 2 <= len(b):
            al = struct.unpack('>H', bytes(b[p:p + 2]))[0]
            b[p:p + 2] = struct.pack('>H', (al + rng.choice([-1, 1, 2, -2, 100])) & 0xffff)
    elif mode == 4 and len(b) > 20:
        cut = 19 + rng.below(len(b) - 19)
        b = b[:cut]
        if rng.chance(1, 2):
            b[16:18] = struct.pack('>H', len(b))
    elif mode == 5 and len(b) > 25:
        i = 21 + rng.below(len(b) - 22)
        b[i] = rng.choice([0, 1, 0x0f, 0x10, 0x7f, 0x80, 0xf0, 0xff])
    elif mode == 6 and len(b) > 30:
        i = 19 + rng.below(len(b) - 24); j = 19 + rng.below(len(b) - 24)
        n = rng.below(5)
        b[i:i + n], b[j:j + n] = b[j:j + n], b[i:i + n]
    elif mode == 7:
        b += bytes(rng.below(256) for _ in range(rng.below(6)))
        if rng.chance(1, 2):
            b[16:18] = struct.pack('>H', min(len(b), 65535))
    elif mode == 8 and len(b) > 24:
        # splice: insert random octets and fix up the header length
        i = 19 + rng.below(len(b) - 19)
        b[i:i] = bytes(rng.below(256) for _ in range(1 + rng.below(4)))
        b[16:18] = struct.pack('>H', min(len(b), 65535))
    else:
        b[18] = rng.choice([1, 2, 2, 3, 4, 5, 0])
    return bytes(b)


def grammar(rng):
    """an UPDATE walked from the grammar with adversarial length fields"""
    def attr():
        flags = rng.choice([0x40, 0x80, 0xc0, 0x50, 0x90, 0xd0, rng.below(256)])
        code = rng.choice([1, 2, 3, 4, 5, 6, 7, 8, 9, 10, 14, 15, 16, 17, 18, 20, 21, 25, 32, 35, 128, 255, rng.below(256)])
        v = bytes(rng.below(256) for _ in range(rng.choice([0, 1, 2, 3, 4, 5, 6, 8, 12, 20, 24, 40])))
        if code in (14, 15) and rng.chance(3, 4):
            fam = rng.choice(nlrienc.FAMS)
            a, s = nlrienc.AFISAFI[fam]
            body = b''.join(nlrienc.encode(nlrienc.gen_value(fam, rng, rng.below(1 << 32) if rng.chance(1, 3) else None,
                                                             boundary=(6 if nlrienc.kind(fam) in ('F', 'E') else None))) for _ in range(rng.below(4)))
            if rng.chance(1, 3) and body:
                body = body[:rng.below(len(body))] + bytes(rng.below(256) for _ in range(rng.below(3)))
            if code == 14:
                nhl = rng.choice(updenc.NH_LEN[fam] + [0, 1, 255])
                v = struct.pack('>HBB', a, s, nhl) + bytes(rng.below(256) for _ in range(min(nhl, rng.choice([nhl, nhl, max(0, nhl - 1)])))) + b'\x00' + body
            else:
                v = struct.pack('>HB', a, s) + body
            if rng.chance(1, 10):
                v = v[:rng.below(4)]
        ln = len(v) if rng.chance(5, 6) else rng.choice([0, len(v) + 1, max(0, len(v) - 1), 255, 65535])
        if flags & 0x10:
            return bytes([flags, code]) + struct.pack('>H', ln & 0xffff) + v
        return bytes([flags, code, ln & 0xff]) + v
    wd = b''.join(nlrienc.encode(nlrienc.gen_value('Ipv4Unicast', rng, rng.below(1 << 32) if rng.chance(1, 3) else None)) for _ in range(rng.below(3)))
    attrs = b''.join(attr() for _ in range(rng.below(5)))
    ann = b''.join(nlrienc.encode(nlrienc.gen_value('Ipv4Unicast', rng, rng.below(1 << 32) if rng.chance(1, 3) else None)) for _ in range(rng.below(3)))
    wl = len(wd) if rng.chance(7, 8) else rng.choice([0, len(wd) + 1, 65535])
    al = len(attrs) if rng.chance(7, 8) else rng.choice([0, len(attrs) + 1, max(0, len(attrs) - 1), 65535])
    body = struct.pack('>H', wl & 0xffff) + wd + struct.pack('>H', al & 0xffff) + attrs + ann
    total = 19 + len(body)
    return b'\xff' * 16 + struct.pack('>HB', total if rng.chance(9, 10) else rng.choice([0, 19, total - 1, total + 1]), 2) + body


def flow_adversarial(rng):
    """an accepted UPDATE whose MP_(UN)REACH carries IPv4 / IPv6 FlowSpec NLRI with component-level edge cases: prefix components
    (types 1, 2) of every prefix length class incl. lengths that need more octets than the address has, operator / value
    components with and without end-of-list bits, unknown component types, truncated components"""
    def comp():
        t = rng.choice([1, 2, 1, 2, 3, 4, 5, 6, 7, 8, 9, 10, 11, 12, 13, 0, 14, 255])
        if t in (1, 2):
            plen = rng.choice([0, 1, 7, 8, 24, 31, 32, 33, 36, 40, 41, 48, 64, 128, 129, 255])
            have = rng.choice([(plen + 7) // 8, (plen + 7) // 8, 0, 3, 4, 5, 6])
            return bytes([t, plen]) + bytes(rng.below(256) for _ in range(have))
        n = rng.below(4)
        out = bytes([t])
        for i in range(n + 1):
            op = rng.choice([0x01, 0x81, 0x11, 0x91, 0x21, 0xa1, 0x31, 0xb1, rng.below(256)])
            if i == n and rng.chance(3, 4):
                op |= 0x80
            out += bytes([op]) + bytes(rng.below(256) for _ in range(1 << ((op >> 4) & 3)))
        return out
    def nlri():
        body = b''.join(comp() for _ in range(1 + rng.below(3)))
        if rng.chance(1, 8):
            body = body[:rng.below(len(body) + 1)]
        ln = len(body)
        if ln < 240 and rng.chance(5, 6):
            return bytes([ln]) + body
        return bytes([0xf0 | (ln >> 8), ln & 0xff]) + body
    afi = rng.choice([1, 1, 1, 2])
    nl = b''.join(nlri() for _ in range(1 + rng.below(3)))
    if rng.chance(1, 2):
        v = struct.pack('>HBB', afi, 133, 0) + b'\x00' + nl
        attr = bytes([0x90, 14]) + struct.pack('>H', len(v)) + v
    else:
        v = struct.pack('>HB', afi, 133) + nl
        attr = bytes([0x90, 15]) + struct.pack('>H', len(v)) + v
    attrs = bytes([0x40, 1, 1, 0, 0x40, 2, 0]) + attr
    body = struct.pack('>H', 0) + struct.pack('>H', len(attrs)) + attrs
    return b'\xff' * 16 + struct.pack('>HB', 19 + len(body), 2) + body


def label_adversarial(rng):
    """an accepted UPDATE whose MP_(UN)REACH carries labelled-unicast / MPLS-VPN NLRI with label stacks around and far beyond what
    the length octet can describe (10 labels = 240 bits): depths 9..12, 33, 85 (8 * 3 * depth wraps a u8 from 11 on), with length
    octets that are consistent, too small, or equal to the wrapped value"""
    def nlri(safi, v6):
        depth = rng.choice([1, 2, 9, 10, 10, 11, 11, 12, 21, 22, 33, 43, 85])
        labels = b''.join(bytes([rng.below(256), rng.below(256), rng.below(256) & 0xfe]) for _ in range(depth - 1))
        labels += bytes([rng.below(256), rng.below(256), rng.below(256) | 1])
        rd = bytes(rng.below(256) for _ in range(8)) if safi == 128 else b''
        pl = rng.choice([0, 8, 16, 24, 32])
        pfx = bytes(rng.below(256) for _ in range(pl // 8))
        bits = 24 * depth + 8 * len(rd) + pl
        ln = rng.choice([bits & 0xff, bits & 0xff, min(bits, 255), 0, 8, 24, 40, 56, 255, (24 * depth) & 0xff])
        pid = struct.pack('>I', rng.below(1 << 32)) if rng.chance(1, 4) else b''
        return pid + bytes([ln]) + labels + rd + pfx
    afi = rng.choice([1, 1, 2])
    safi = rng.choice([4, 4, 128])
    nl = b''.join(nlri(safi, afi == 2) for _ in range(1 + rng.below(2)))
    if rng.chance(2, 3):
        nhl = (4 if afi == 1 else 16) + (8 if safi == 128 else 0)
        v = struct.pack('>HBB', afi, safi, nhl) + bytes(rng.below(256) for _ in range(nhl)) + b'\x00' + nl
        attr = bytes([0x90, 14]) + struct.pack('>H', len(v)) + v
    else:
        v = struct.pack('>HB', afi, safi) + nl
        attr = bytes([0x90, 15]) + struct.pack('>H', len(v)) + v
    attrs = bytes([0x40, 1, 1, 0, 0x40, 2, 0]) + attr
    body = struct.pack('>H', 0) + struct.pack('>H', len(attrs)) + attrs
    return b'\xff' * 16 + struct.pack('>HB', 19 + len(body), 2) + body


def gen(ctx):
    rng = core.SplitMix(ctx.seed + 1000)
    out = []
    n = 6000 if ctx.tier == 'quick' else 400000
    for i in range(n):
        cfg = updenc.gen_cfg(rng)
        mode = rng.below(10)
        if mode < 5:
            content, _ = updenc.gen_content(rng, cfg, size=rng.choice(['small', 'normal']))
            msg, _ = updenc.encode(content)
            msg = mutate(rng, msg)
            if rng.chance(1, 4):
                msg = mutate(rng, msg)
            kind = 'mutated'
        elif mode < 9:
            msg = grammar(rng)
            kind = 'grammar'
        elif rng.chance(1, 2):
            if rng.chance(1, 2):
                msg = flow_adversarial(rng)
                kind = 'flowspec'
            else:
                msg = label_adversarial(rng)
                kind = 'labels'
        else:
            ln = rng.choice([0, 1, 18, 19, 22, 23, 30, 100, 4096, 5000])
            msg = bytes(rng.below(256) for _ in range(ln))
            if rng.chance(2, 3) and ln >= 19:
                msg = b'\xff' * 16 + struct.pack('>HB', ln, 2) + msg[19:]
            kind = 'random'
        if rng.chance(1, 5):
            # configuration unrelated to the message: arbitrary ADD-PATH family map
            cfg = updenc.gen_cfg(rng)
        out.append((cfg, msg[:66000], kind))
    return out


def run(ctx):
    d = core.case_dir('C02')
    cases = gen(ctx)
    path = os.path.join(d, 'cases.txt')
    texts = []
    with open(path, 'w') as f:
        for i, (cfg, msg, kind) in enumerate(cases):
            t = 'UPD %d %s %s' % (i, updenc.cfg_str(cfg), msg.hex() or '-')
            texts.append(t)
            f.write(t + '\n')
    impl, _ = core.run_tool_sharded(ctx.harness, ['c02'], path)
    impl = [l for l in impl if l]
    outcome = {}
    groups = {}
    for l in impl:
        groups.setdefault(int(l.split(' ')[1]), []).append(l)
    for i, ls in groups.items():
        o = ls[0].split(' ')[2]
        outcome[o + ':' + cases[i][2]] = outcome.get(o + ':' + cases[i][2], 0) + 1
        if any('PANIC' in l or 'HANG' in l for l in ls):
            ctx.violation('panic or endless iterator on an UPDATE byte string', case=texts[i][:500], impl=[l[:300] for l in ls if 'PANIC' in l or 'HANG' in l][:3])
        elif len(ls) == 5:
            # the all-or-nothing vectors agree with what the iterators yield
            n = dict(x.split('=', 1) for x in ls[3].split(' ')[3:] if '=' in x)
            def parts(s):
                return [] if s in ('none',) else [x for x in s[s.index('[') + 1:-1].split(',') if x]
            for conv, mp, vec in (('convw', 'mpw', 'wvec'), ('conva', 'mpa', 'avec')):
                its = parts(n[conv]) + (parts(n[mp]) if n[mp] not in ('none', 'E') else [])
                if n[mp] == 'E':
                    want = 'E'
                elif 'E' in its:
                    want = 'E'
                else:
                    want = '%d[%s]' % (len(its), ','.join(its))
                if n[vec] != want:
                    ctx.violation('%s disagrees with what the iterators yield' % vec, case=texts[i][:400], impl=ls[3][:600])
                # an item-level error is the last item of its section
                for sec in (conv, mp):
                    p = parts(n[sec]) if n[sec] not in ('none', 'E') else []
                    if 'E' in p[:-1]:
                        ctx.violation('an item-level error is not the last item the iterator yields', case=texts[i][:400], impl=ls[3][:600])
        if len(ctx.violations) > 8:
            break
    if ctx.model:
        model, _ = core.run_tool_sharded(ctx.model, ['c02'], path)
        for k, a, b in core.diff_lines(model, impl, limit=5):
            idx = int((a if a != '<missing>' else b).split(' ')[1])
            ctx.violation('model and implementation disagree', case=texts[idx][:500], model=a[:500], impl=b[:500])
    ctx.coverage.update({
        'evaluations': len(cases),
        'distinct_nontrivial': len(set(texts)),
        'rule': 'byte strings: valid UPDATEs of every family mutated (bit flips, header/section/attribute length edits, truncation, '
                'byte edits, swaps, splices, appended octets, type edits), grammar walks with adversarial length fields and '
                'truncated MP attributes, random octets; each under a random session configuration (2-/4-octet, random ADD-PATH '
                'map, one in five unrelated to the message). Every accessor outcome compared with the model; PANIC/HANG on the '
                'implementation is a failing input by itself',
        'input_distribution': outcome,
    })
    ctx.samples = [texts[0][:300]] + [l[:200] for l in groups.get(0, [])[:2]]


def replay(ctx, path):
    run(ctx)
