"""C16 - MRT table-dump iteration conserves entries; parallel equals sequential."""
import os
import struct
from lib import core, updenc
from lib.core import CheckFailure
from props import c03

GENERATORS = ['mrt']
TRUSTED_BASE = [
    'Coq 8.16.1 kernel (coqc); no axioms (Print Assumptions: closed)',
    'hand-written Model/Mrt.v (record header, peer index table, RIB tables, RibEntryIterator / TableDumpIterator + '
    'SingleEntryIterator, BGP4MP message iterator; unwrap / todo! / assert! / unchecked subtraction as explicit Panic) over the '
    'prefix model of Model/Nlri.v; bodies pinned by normal-form hash (tools/gen_mrt.py, pins.json key mrt_pinned), the three '
    'typeenum! tables generated',
    'rayon is modelled, not verified: the parallel iterator is assumed to deliver some interleaving of the per-table entry lists '
    '(par_bridge + flat_map_iter); the theorem is that every such interleaving is a permutation of the sequential output. The '
    'correspondence runs the real parallel iterator under pools of 1, 2, 3, 8 and 16 threads on every file and compares multisets',
    'extraction: ExtrOcamlBasic only; ocaml/c16.ml, harness/src/c16.rs (cfg hook verif_bgp_octets for the raw embedded message); '
    'independent Python MRT encoder in props/c16.py as oracle',
]
ASSUMPTIONS = [
    'partial: thread schedules are sampled, not enumerated (5 pool sizes per file, repeated in the thorough tier); the multiset '
    'theorem covers every interleaving but rests on the stated model of rayon',
    'well-formed TABLE_DUMP_V2 file = a PEER_INDEX_TABLE record followed by RIB_IPV4_UNICAST / RIB_IPV6_UNICAST records with at '
    'least one entry each, every peer index within the table (what the property quantifies over); other record kinds make the '
    'iterators panic (todo!() / unwrap) and are outside the claim - the model reproduces those panics and the correspondence '
    'compares them',
    'debug build (overflow checks): BGP4MP_ET with a length field below 4 panics on `length - 4`; a truncated file never has one',
]


def rec(ts, ty, sub, body, length=None):
    return struct.pack('>IHHI', ts, ty, sub, len(body) if length is None else length) + body


def rec_et(ts, sub, mus, body):
    return struct.pack('>IHHII', ts, 17, sub, 4 + len(body), mus) + body


def gen_peers(rng):
    peers = []
    for _ in range(1 + rng.below(6)):
        v6 = rng.chance(1, 3)
        as4 = rng.chance(1, 2)
        peers.append({'v6': v6, 'as4': as4, 'id': rng.bytes(4), 'addr': rng.addr(v6),
                      'asn': rng.choice([0, 65535, 64512, rng.below(65536)]) if not as4 else rng.choice([0, 65536, 4200000000, rng.below(1 << 32)])})
    return peers


def enc_peer(p, typ_extra=0):
    t = (1 if p['v6'] else 0) | (2 if p['as4'] else 0) | typ_extra
    return bytes([t]) + p['id'] + p['addr'] + (struct.pack('>I', p['asn']) if p['as4'] else struct.pack('>H', p['asn']))


def peer_s(p):
    return '%s/%s/%d' % (p['id'].hex(), p['addr'].hex(), p['asn'])


def gen_prefix(rng, v6):
    width = 16 if v6 else 4
    ln = rng.choice([0, 1, 7, 8, 9, 16, 23, 24, 32] + ([33, 48, 64, 127, 128] if v6 else []))
    nb = (ln + 7) // 8
    a = bytearray(rng.bytes(nb))
    if ln % 8 and nb:
        a[-1] &= (0xff << (8 - ln % 8)) & 0xff
    full = bytes(a) + bytes(width - nb)
    return bytes([ln]) + bytes(a), '%d/%s' % (ln, full.hex())


def gen_attrs(rng):
    k = rng.below(4)
    if k == 0:
        return b''
    if k == 1:
        return updenc.tlv(0x40, 1, bytes([rng.below(3)])) + updenc.tlv(0x40, 2, b'\x02\x01' + struct.pack('>I', rng.below(1 << 32)))
    return rng.bytes(rng.choice([1, 5, 40, 300]))


def gen_rib_file(rng, empty_view=None):
    peers = gen_peers(rng)
    view = b'' if (rng.chance(1, 2) if empty_view is None else empty_view) else bytes(rng.choice(b'abcdef') for _ in range(1 + rng.below(12)))
    pit = rng.bytes(4) + struct.pack('>H', len(view)) + view + struct.pack('>H', len(peers)) + b''.join(enc_peer(p, rng.choice([0, 0, 4, 0xfc])) for p in peers)
    out = rec(rng.below(1 << 32), 13, 1, pit)
    tables = []
    for _ in range(rng.below(6)):
        v6 = rng.chance(1, 2)
        pb, ps = gen_prefix(rng, v6)
        entries = []
        for _ in range(1 + rng.below(5)):
            entries.append((rng.below(len(peers)), rng.below(1 << 32), gen_attrs(rng)))
        if rng.chance(1, 60):
            # a record longer than 65535 octets (the length field has 32 bits): two entries with 33000..65535 attribute octets each
            for _ in range(2):
                entries.append((rng.below(len(peers)), rng.below(1 << 32), rng.bytes(rng.choice([33000, 40000, 65535]))))
        body = struct.pack('>I', rng.below(1 << 32)) + pb + struct.pack('>H', len(entries)) + \
            b''.join(struct.pack('>HIH', i, ot, len(a)) + a for i, ot, a in entries)
        out += rec(rng.below(1 << 32), 13, 4 if v6 else 2, body)
        tables.append((v6, ps, entries))
    rib = ','.join('%d:%d:%s:%s:%s' % (1 if v6 else 0, i, peer_s(peers[i]), ps, a.hex() or '-') for v6, ps, es in tables for i, ot, a in es)
    tabs = '%s#[%s]' % (';'.join(peer_s(p) for p in peers),
                        '|'.join('%d{%s}' % (1 if v6 else 0, ';'.join('%s:%d:%s' % (ps, i, a.hex() or '-') for i, ot, a in es)) for v6, ps, es in tables))
    par = '[%s]' % ','.join(sorted('%s:%d:%s' % (ps, i, a.hex() or '-') for v6, ps, es in tables for i, ot, a in es))
    return out, {'rib': '[%s]' % rib, 'tables': tabs, 'par': par}


# the FSM state codes of a BGP4MP state change record (RFC 6396 4.4.1 / RFC 4271): the oracle's own table
STATE_NAMES = {1: 'Idle', 2: 'Connect', 3: 'Active', 4: 'OpenSent', 5: 'OpenConfirm', 6: 'Established'}


def state_s(n):
    return '%d/%s' % (n, STATE_NAMES.get(n, 'Unimplemented(%d)' % n))


def gen_mp_records(rng, bgp_pool):
    """list of (bytes, expected item string)"""
    recs = []
    for _ in range(rng.below(7)):
        as4 = rng.chance(1, 2)
        v6 = rng.chance(1, 3)
        pa = rng.below(1 << 32) if as4 else rng.below(65536)
        la = rng.below(1 << 32) if as4 else rng.below(65536)
        ifc = rng.below(65536)
        a, b = rng.addr(v6), rng.addr(v6)
        head = (struct.pack('>II', pa, la) if as4 else struct.pack('>HH', pa, la)) + struct.pack('>HH', ifc, 2 if v6 else 1) + a + b
        et = rng.chance(1, 3)
        if rng.chance(1, 4):
            o, n = rng.choice([1, 2, 3, 4, 5, 6, 0, 7]), rng.choice([1, 6, 3, 65535])
            body = head + struct.pack('>HH', o, n)
            sub = 5 if as4 else 0
            item = 'S%d:%d:%d:%d:%d:%s:%s:%s:%s' % (1 if as4 else 0, pa, la, ifc, 2 if v6 else 1, a.hex(), b.hex(), state_s(o), state_s(n))
        else:
            m = rng.choice(bgp_pool)
            body = head + m
            sub = 4 if as4 else 1
            item = 'M%d:%d:%d:%d:%d:%s:%s:%s' % (1 if as4 else 0, pa, la, ifc, 2 if v6 else 1, a.hex(), b.hex(), m.hex() or '-')
        ts = rng.below(1 << 32)
        recs.append((rec_et(ts, sub, rng.below(1000000), body) if et else rec(ts, 16, sub, body), item))
    return recs


def mutate(rng, b):
    b = bytearray(b)
    k = rng.below(6)
    if k == 0 and b:
        b = b[:rng.below(len(b))]
    elif k == 1 and len(b) > 12:
        i = rng.below(len(b))
        b[i] = rng.below(256)
    elif k == 2 and len(b) > 12:
        struct.pack_into('>H', b, 4, rng.choice([11, 12, 13, 16, 17, 32, 33, 48, 49, 0, 99]))
    elif k == 3 and len(b) > 12:
        struct.pack_into('>H', b, 6, rng.choice([0, 1, 2, 3, 4, 5, 6, 7, 8]))
    elif k == 4 and len(b) > 12:
        struct.pack_into('>I', b, 8, rng.choice([0, 1, 3, 4, 5, len(b) - 12, len(b) - 11, len(b), 0xffffffff]))
    else:
        b += bytes(rng.below(256) for _ in range(1 + rng.below(14)))
    return bytes(b)


def fields(l):
    p = l.split(' ')
    d = {}
    for x in p[2:]:
        if '=' in x:
            a, b = x.split('=', 1)
            d[a] = b
    return d


def run(ctx):
    d = core.case_dir('C16')
    rng = core.SplitMix(ctx.seed)
    quick = ctx.tier == 'quick'
    bgp_pool = [c03.hdr(19, 4), c03.hdr(23, 2) + b'\x00\x00\x00\x00', c03.hdr(21, 3) + b'\x06\x02', b'', b'\x01\x02\x03']
    while len(bgp_pool) < (40 if quick else 300):
        c, _ = updenc.gen_content(rng, {'four': True, 'ap': []}, 'normal')
        m, _ = updenc.encode(c)
        if len(m) <= 4096:
            bgp_pool.append(m)
    lines = []
    meta = []
    n_rib = 400 if quick else 6000
    for _ in range(n_rib):
        b, exp = gen_rib_file(rng)
        lines.append('RIB %s' % b.hex())
        meta.append(('rib', exp))
        # (the model walks lists: a mutated length field that makes one record of a 100 KB file costs it minutes, so the
        # mutated copy is made of the ordinary files only)
        lines.append('RIB %s' % (mutate(rng, b if len(b) < 60000 else b[:2000]).hex() or '-'))
        meta.append((None, None))
    n_mp = 500 if quick else 8000
    n_trunc = 0
    for k in range(n_mp):
        # the first files carry short BGP messages only, so that every truncation point of them can be run
        every_cut = k < (12 if quick else 80)
        recs = gen_mp_records(rng, bgp_pool[:5] if every_cut else bgp_pool)
        b = b''.join(r for r, _ in recs)
        lines.append('MP %s' % (b.hex() or '-'))
        meta.append(('mp', [it for _, it in recs]))
        # truncation points: every one for the first files, sampled afterwards
        cuts = range(len(b)) if (every_cut and len(b) < 2000) else [rng.below(len(b) + 1) for _ in range(3)]
        for cut in cuts:
            done = 0
            acc = 0
            for r, _ in recs:
                if acc + len(r) <= cut:
                    acc += len(r)
                    done += 1
                else:
                    break
            lines.append('MP %s' % (b[:cut].hex() or '-'))
            meta.append(('mp', [it for _, it in recs[:done]]))
            n_trunc += 1
        lines.append('MP %s' % (mutate(rng, b).hex() or '-'))
        meta.append((None, None))
    path = os.path.join(d, 'cases.txt')
    with open(path, 'w') as f:
        f.write('\n'.join(lines) + '\n')
    impl, _ = core.run_tool_sharded(ctx.harness, ['c16', 'obs'], path)
    impl = [l for l in impl if l]
    if ctx.model:
        model, _ = core.run_tool_sharded(ctx.model, ['c16', 'obs'], path)
        for k, a, b in core.diff_lines(model, impl, limit=10):
            fa, fb = fields(a), fields(b)
            which = [x for x in set(fa) | set(fb) if fa.get(x) != fb.get(x)]
            ctx.violation('model and implementation disagree on an MRT file (%s)' % ','.join(sorted(which)),
                          case=(b if b != '<missing>' else a)[:600], model=str({x: fa.get(x, '')[:300] for x in which}),
                          impl=str({x: fb.get(x, '')[:300] for x in which}))
    n_items = 0
    for l, (kind, exp) in zip(impl, meta):
        f = fields(l)
        case = l[:600]
        if kind == 'rib':
            if f.get('rib') != exp['rib']:
                ctx.violation('the sequential RIB iterator does not yield the entries of the file', case=case, expected=exp['rib'][:400], impl=f.get('rib', '')[:400])
            if f.get('tables') != exp['tables']:
                ctx.violation('the table iterators do not yield the entries of the file', case=case, expected=exp['tables'][:400], impl=f.get('tables', '')[:400])
            for n in (1, 2, 3, 8, 16):
                if f.get('par%d' % n) != exp['par']:
                    ctx.violation('the parallel iterator (%d threads) does not yield the multiset of entries of the file' % n, case=case,
                                  expected=exp['par'][:400], impl=f.get('par%d' % n, '')[:400])
                    break
            n_items += exp['rib'].count(':') // 4
        elif kind == 'mp':
            want = '[%s]' % ','.join(exp)
            if f.get('msgs') != want:
                ctx.violation('the message iterator does not yield the complete records of the (possibly truncated) file in order', case=case,
                              expected=want[:400], impl=f.get('msgs', '')[:400])
            n_items += len(exp)
    ctx.coverage.update({
        'evaluations': len(impl),
        'distinct_nontrivial': len(set(l.split(' ', 2)[2] for l in impl if 'ERR' not in l and 'PANIC' not in l)),
        'rule': 'correspondence: every file through model and implementation: sequential RIB iterator, table iterator + per-table entry '
                'iterators, parallel iterator under 5 pool sizes (sorted), message iterator; non-trivial = distinct observation lines '
                'without error; oracle: the Python encoder\'s entry lists (peers resolved through the peer table) and record lists, '
                'for BGP4MP files also at every truncation point of the first files and sampled points of the rest',
        'exhaustive': False,
        'input_distribution': {'rib_files': n_rib, 'rib_files_mutated': n_rib, 'bgp4mp_files': n_mp, 'truncations': n_trunc,
                               'bgp4mp_mutated': n_mp, 'expected_items': n_items, 'parallel_pool_sizes': [1, 2, 3, 8, 16]},
    })
    ctx.samples = [l[:400] for l in impl if l.startswith('RIB') and 'rib=[0' in l][:1] + [l[:300] for l in impl if l.startswith('MP') and 'msgs=[M' in l][:2]


def replay(ctx, path):
    run(ctx)
