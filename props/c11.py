"""C11 - best/backup selection returns the minimum and a true runner-up."""
import itertools
import os
from lib import core, routes
from lib.core import CheckFailure

GENERATORS = ['cmpchain']
TRUSTED_BASE = [
    'Coq 8.16.1 kernel (coqc); no axioms',
    'hand-written fold models of Iterator::min, best_backup_generic and _best_backup in Model/Select.v (generic in the item type), tied by the correspondence run; C10 for the comparison itself',
    'extraction: ExtrOcamlBasic only; ocaml/c10.ml, harness/src/c10.rs; lib/routes.py (oracle only)',
]
ASSUMPTIONS = [
    'hypotheses of the generic theorems: `<` is a strict weak order and equal content implies equal preference; discharged for eligible routes under SkipMed (c11_skipmed_instance). With MED comparison enabled the order is not transitive (c10_med_not_transitive), so only c11_best_is_best is claimed there',
]


def base_routes():
    """12 eligible routes with preference ties between different contents and exact duplicates."""
    def r(**kw):
        d = dict(dop=None, ibgp=0, local_asn=100, bgp_id=1, peer=(4, 1), origin=0, path=('a10', 'a20'),
                 local_pref=None, med=None, originator=None, cluster_len=None, rest=0)
        d.update(kw)
        return d
    A = r()
    return [A, r(rest=7),                       # A' ties A, different content
            r(path=('a30', 'a20')),             # A'' ties A (same length), different content
            r(peer=(4, 2)), r(peer=(4, 2), rest=7),
            r(origin=2), r(origin=2, med=10),
            r(path=('a10', 'a20', 'a30')), r(dop=200), r(dop=200, rest=7),
            r(ibgp=1, local_pref=150), r(bgp_id=2, peer=(6, 1)),
            # the same preference through a different content: an explicit degree of preference / MED of 0 against none
            r(dop=0), r(med=0), r(ibgp=1, local_pref=150, dop=150)]


def gen(ctx):
    rng = core.SplitMix(ctx.seed)
    base = base_routes()
    cases = []   # (strat, [route indices or dicts])
    # exhaustive small: all lists of length 0..3 over the 12 routes; longer ones sampled with all permutations
    for n in range(0, 4 if ctx.tier == 'quick' else 5):
        for combo in itertools.product(range(len(base)), repeat=n):
            if n >= 3 and ctx.tier == 'quick' and rng.below(4):
                continue
            if n >= 4 and rng.below(6):
                continue
            cases.append(('S', [base[i] for i in combo]))
    n_multi = 250 if ctx.tier == 'quick' else 6000
    for _ in range(n_multi):
        n = 4 + rng.below(3)
        ms = [base[rng.below(len(base))] for _ in range(n)]
        perms = list(itertools.permutations(range(n)))
        step = max(1, len(perms) // (24 if ctx.tier == 'quick' else 120))
        for p in perms[::step]:
            cases.append(('S', [ms[i] for i in p]))
    for _ in range(1500 if ctx.tier == 'quick' else 40000):
        n = 1 + rng.below(12)
        strat = 'R' if rng.chance(1, 4) else 'S'
        rs = [routes.random_route(rng, eligible_only=True) for _ in range(n)]
        # near-duplicates: a copy of one of the candidates with a single field changed (often to an equivalent encoding)
        for _ in range(rng.below(3)):
            c = dict(rs[rng.below(len(rs))])
            f = rng.choice(['dop', 'med', 'local_pref', 'rest', 'origin', 'originator', 'cluster_len'])
            c[f] = routes.LATTICE[f][rng.below(len(routes.LATTICE[f]))]
            if routes.eligible(c):
                rs.insert(rng.below(len(rs) + 1), c)
        cases.append((strat, rs))
    return cases


def lt(strat, a, b):
    return routes.decide(strat, a, b) < 0


def check_case(ctx, strat, rs, out, line):
    f = dict(x.split('=') for x in out.split()[2:])
    def idx(s):
        return None if s == '-' else int(s)
    best = idx(f['best'])
    bb = [idx(x) for x in f['bb'].split(',')]
    pos = [idx(x) for x in f['pos'].split(',')]
    gen_ = [idx(x) for x in f['gen'].split(',')]
    if 'PANIC' in out:
        ctx.violation('selection panicked', case=line, impl=out)
        return
    if bb != pos:
        ctx.violation('best_backup and best_backup_position disagree', case=line, impl=out)
    if bb[0] != best:
        ctx.violation('best of best_backup is not the route the single-best helper returns', case=line, impl=out)
    if not rs:
        if best is not None or bb != [None, None]:
            ctx.violation('non-empty answer for an empty collection', case=line, impl=out)
        return
    if strat != 'S':
        return
    # first minimum
    exp_best = 0
    for i in range(1, len(rs)):
        if lt(strat, rs[i], rs[exp_best]):
            exp_best = i
    if best != exp_best:
        ctx.violation('best is not the first minimum', case=line, impl=out, expected=exp_best)
        return
    b = rs[best]
    others = [i for i in range(len(rs)) if routes.content(rs[i]) != routes.content(b)]
    if not others:
        if bb[1] is not None:
            ctx.violation('backup present although every candidate has the content of the best', case=line, impl=out)
        return
    if bb[1] is None:
        ctx.violation('backup absent although a candidate differs in content from the best', case=line, impl=out)
        return
    k = rs[bb[1]]
    if routes.content(k) == routes.content(b):
        ctx.violation('backup has the same content as the best', case=line, impl=out)
    for i in others:
        if lt(strat, rs[i], k):
            ctx.violation('a candidate differing from the best is preferred over the backup', case=line, impl=out,
                          better=i)
            break
    # generic helper on pairwise distinct items
    distinct = all(routes.decide(strat, rs[i], rs[j]) != 0 for i in range(len(rs)) for j in range(i + 1, len(rs)))
    if distinct and len(rs) >= 2:
        order = sorted(range(len(rs)), key=lambda i: sum(1 for j in range(len(rs)) if lt(strat, rs[j], rs[i])))
        if gen_ != order[:2]:
            ctx.violation('best_backup_generic does not return the two smallest', case=line, impl=out, expected=order[:2])


def run(ctx):
    d = core.case_dir('C11')
    cases = gen(ctx)
    lines = ['LIST %d %s %s' % (i, s, ' | '.join(routes.fmt(r) for r in rs)) for i, (s, rs) in enumerate(cases)]
    path = os.path.join(d, 'cases.txt')
    with open(path, 'w') as f:
        f.write('\n'.join(lines) + '\n')
    impl, _ = core.run_tool_sharded(ctx.harness, ['c11'], path)
    impl = [l for l in impl if l]
    if len(impl) != len(lines):
        raise CheckFailure('corr', 'implementation produced %d lines for %d cases' % (len(impl), len(lines)))
    classes = {}
    for (strat, rs), out, line in zip(cases, impl, lines):
        if '!iterator-kind' in out or '!shared-pamap' in out:
            ctx.violation('the selection depends on how the candidates are handed in (an iterator of unknown length / routes sharing one PaMap), not on the candidates',
                          case=line, impl=out)
            continue
        check_case(ctx, strat, rs, out, line)
        if len(ctx.violations) > 10:
            break
        # order independence of the backup's preference class over permutations of the same multiset
        if strat == 'S' and rs and 'PANIC' not in out:
            key = tuple(sorted(routes.fmt(r) for r in rs))
            f = dict(x.split('=') for x in out.split()[2:])
            k = f['bb'].split(',')[1]
            kr = None if k == '-' else rs[int(k)]
            if key in classes:
                pk, pline, pout = classes[key]
                same = (kr is None) == (pk is None) and (kr is None or routes.decide('S', kr, pk) == 0)
                if not same:
                    ctx.violation('preference class of the backup depends on the order of the candidates',
                                  case=[pline, line], impl=[pout, out])
            else:
                classes[key] = (kr, line, out)
    if ctx.model:
        model, _ = core.run_tool_sharded(ctx.model, ['c11'], path)
        for k, a, b in core.diff_lines(model, impl, limit=5):
            ctx.violation('model and implementation disagree', case=lines[k] if k < len(lines) else None, model=a, impl=b)
    sizes = {}
    for s, rs in cases:
        sizes[len(rs)] = sizes.get(len(rs), 0) + 1
    ctx.coverage.update({
        'evaluations': len(impl),
        'distinct_nontrivial': len(set(l.split(' ', 2)[2] for l, (s, rs) in zip(lines, cases) if len(rs) >= 2)),
        'rule': 'candidate lists over a 12-route lattice with exact duplicates and preference ties between different '
                'contents: all lists up to length 2 (sampled above), multisets of 4-6 candidates in sampled permutations '
                '(class invariance checked across permutations), random lists of 1-12 lattice routes; non-trivial = at '
                'least two candidates; distinct = distinct candidate list',
        'input_distribution': {'list_length_histogram': {str(k): v for k, v in sorted(sizes.items())}},
    })
    ctx.samples = [lines[200] if len(lines) > 200 else lines[-1], impl[200] if len(impl) > 200 else impl[-1]]


def replay(ctx, path):
    run(ctx)
