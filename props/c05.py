"""C05 - every NLRI family round-trips and reports its exact encoded length."""
import os
from lib import core, nlrienc
from lib.core import CheckFailure

GENERATORS = ['enums']
TRUSTED_BASE = [
    'Coq 8.16.1 kernel (coqc); no axioms',
    'hand-written Model/Nlri.v (13 family codecs, Labels::parse, FlowSpec component walk, inetnum Prefix::new_v4/new_v6 host-bit check, NlriIter), tied by the correspondence run; u8 arithmetic modelled in the overflow-checking profile',
    'extraction: ExtrOcamlBasic only; ocaml/c05.ml, harness/src/c05.rs; lib/nlrienc.py reference encoder (generator/oracle only)',
]
ASSUMPTIONS = [
    'wf_nlri = what the wire can express: 8*labels + (64) + prefix length <= 255, route-target <= 31 octets, EVPN body <= 255, FlowSpec body <= 4095 and (IPv4) a component list exactly filling the body; values outside it (e.g. 8 labels on a /128) cannot be obtained from the wire and panic/saturate in compose',
    'generic NLRI types have no public constructors: values are obtained by decoding reference encodings',
]


def gen(ctx):
    rng = core.SplitMix(ctx.seed)
    lines = []
    exp = []   # expected dict or None (malformed)
    dist = {}

    def one(v, tail=b''):
        b = nlrienc.encode(v)
        lines.append('ONE %d %s %d %s' % (len(lines), v['fam'], 1 if v['pid'] is not None else 0, nlrienc.hexs if False else (b + tail).hex() or '-'))
        exp.append({'bytes': b, 'v': v})
        dist[v['fam']] = dist.get(v['fam'], 0) + 1

    reps = 1 if ctx.tier == 'quick' else 6
    for fam in nlrienc.FAMS:
        k = nlrienc.kind(fam)
        v6 = nlrienc.is_v6(fam)
        for pid in (None, 0, 1, 0xffffffff, rng.below(1 << 32)):
            if k in ('P', 'M', 'V'):
                for plen in range(0, (128 if v6 else 32) + 1):
                    for _ in range(reps):
                        one(nlrienc.gen_value(fam, rng, pid, boundary=plen), tail=bytes(rng.below(256) for _ in range(rng.below(3))))
            elif k == 'F':
                for n in [0, 3, 4, 6, 7, 8, 9, 10, 11, 12, 13, 238, 239, 240, 241, 242, 255, 256, 4093, 4094, 4095]:
                    if not v6 and n in (1, 2, 5):
                        continue
                    one(nlrienc.gen_value(fam, rng, pid, boundary=n), tail=bytes(rng.below(256) for _ in range(rng.below(3))))
            elif k == 'E':
                for n in list(range(0, 40)) + [127, 128, 200, 254, 255]:
                    one(nlrienc.gen_value(fam, rng, pid, boundary=n))
            else:
                for _ in range(40 * reps):
                    one(nlrienc.gen_value(fam, rng, pid), tail=bytes(rng.below(256) for _ in range(rng.below(3))))
    n_valid = len(lines)
    # concatenations
    cats = []
    for _ in range(300 if ctx.tier == 'quick' else 6000):
        fam = rng.choice(nlrienc.FAMS)
        ap = rng.chance(1, 2)
        n = 1 + rng.below(50)
        vs = [nlrienc.gen_value(fam, rng, rng.below(1 << 32) if ap else None,
                                boundary=(rng.below(300) if nlrienc.kind(fam) == 'F' and nlrienc.is_v6(fam) else None))
              for _ in range(n)]
        if nlrienc.kind(fam) == 'F' and not nlrienc.is_v6(fam):
            vs = vs[:8]
        encs = [nlrienc.encode(v) for v in vs]
        lines.append('CAT %d %s %d %s' % (len(lines), fam, 1 if ap else 0, b''.join(encs).hex() or '-'))
        exp.append({'cat': encs})
        cats.append(len(lines) - 1)
    # malformed: truncations, bit flips, random octets
    n_mal = 0
    for _ in range(4000 if ctx.tier == 'quick' else 120000):
        fam = rng.choice(nlrienc.FAMS)
        ap = rng.chance(1, 2)
        mode = rng.below(4)
        if mode == 0:
            b = bytes(rng.below(256) for _ in range(rng.below(40)))
        else:
            v = nlrienc.gen_value(fam, rng, rng.below(1 << 32) if ap else None,
                                  boundary=(rng.below(40) if nlrienc.kind(fam) in ('F', 'E') else None))
            if nlrienc.kind(fam) == 'F' and not nlrienc.is_v6(fam):
                v = nlrienc.gen_value(fam, rng, rng.below(1 << 32) if ap else None, boundary=rng.choice([0, 3, 4, 6, 7, 8, 9, 12]))
            b = bytearray(nlrienc.encode(v))
            if mode == 1 and b:
                b = b[:rng.below(len(b))]
            elif mode == 2 and b:
                i = rng.below(len(b))
                b[i] ^= 1 << rng.below(8)
            elif b:
                i = rng.below(min(len(b), 6))
                b[i] = rng.choice([0, 1, 0x7f, 0x80, 0xf0, 0xff, rng.below(256)])
            b = bytes(b) + bytes(rng.below(256) for _ in range(rng.below(4)))
        kind_ = 'ONE' if rng.chance(2, 3) else 'CAT'
        lines.append('%s %d %s %d %s' % (kind_, len(lines), fam, 1 if ap else 0, b.hex() or '-'))
        exp.append(None)
        n_mal += 1
    return lines, exp, dist, n_valid, n_mal


def run(ctx):
    d = core.case_dir('C05')
    lines, exp, dist, n_valid, n_mal = gen(ctx)
    path = os.path.join(d, 'cases.txt')
    with open(path, 'w') as f:
        f.write('\n'.join(lines) + '\n')
    impl, _ = core.run_tool_sharded(ctx.harness, ['c05'], path)
    impl = [l for l in impl if l]
    if len(impl) != len(lines):
        raise CheckFailure('corr', 'implementation produced %d lines for %d cases' % (len(impl), len(lines)))
    # oracle: the property statement on the implementation
    outcomes = {}
    for l, e, case in zip(impl, exp, lines):
        p = l.split(' ', 2)
        outcomes[p[2].split(' ')[0]] = outcomes.get(p[2].split(' ')[0], 0) + 1
        if 'PANIC' in l or 'HANG' in l:
            ctx.violation('panic or endless iteration in NLRI parsing/composing', case=case, impl=l)
        elif e is None:
            pass
        elif 'bytes' in e:
            f = dict(x.split('=', 1) for x in p[2].split(' ') if '=' in x)
            b = e['bytes']
            if not p[2].startswith('ok '):
                ctx.violation('a well-formed NLRI was rejected', case=case, impl=l)
            elif int(f['consumed']) != len(b):
                ctx.violation('decoding consumed %s octets, the encoding has %d' % (f['consumed'], len(b)), case=case, impl=l)
            elif f['comp'] != (b.hex() or '-'):
                ctx.violation('re-encoding differs from the reference encoding', case=case, impl=l)
            elif int(f['clen']) != len(b):
                ctx.violation('compose_len differs from the number of octets produced', case=case, impl=l)
            elif f['rt'] != '1':
                ctx.violation('encode then decode does not yield an equal value', case=case, impl=l)
        else:
            want = 'n=%d %s' % (len(e['cat']), ','.join(x.hex() or '-' for x in e['cat']))
            if p[2] != want:
                ctx.violation('a concatenation of encoded NLRI did not decode to the original sequence', case=case,
                              impl=l[:300], expected=want[:300])
        if len(ctx.violations) > 10:
            break
    if ctx.model:
        model, _ = core.run_tool_sharded(ctx.model, ['c05'], path)
        for k, a, b in core.diff_lines(model, impl, limit=5):
            ctx.violation('model and implementation disagree', case=lines[k] if k < len(lines) else None, model=a[:400], impl=b[:400])
    ctx.coverage.update({
        'evaluations': len(impl),
        'distinct_nontrivial': len(set(l.split(' ', 2)[2] for l in lines[:n_valid])),
        'rule': 'reference-encoded values: every prefix length 0..=32 / 0..=128 with boundary bit patterns for the prefix, MPLS and '
                'MPLS-VPN families (label depth 1..=10 / 1..=7 - the most the length octet can describe - and the two compatibility labels), route targets of 0/4/12 and odd '
                'lengths, FlowSpec bodies around 239/240 and 4094/4095, EVPN bodies 0..=255, VPLS fields, with 5 path-id settings; '
                'concatenations of 1..=50; malformed = truncations, bit flips, byte edits, random octets. non-trivial = '
                'well-formed single values; distinct = distinct (family, addpath, octets)',
        'input_distribution': {'valid_single': n_valid, 'concatenations': len(lines) - n_valid - n_mal, 'malformed': n_mal,
                               'per_family_valid': dist, 'impl_outcomes': outcomes},
    })
    ctx.samples = [lines[3], impl[3], lines[n_valid + 1][:200], impl[n_valid + 1][:200]]


def replay(ctx, path):
    run(ctx)
