"""C18 - protocol code points map losslessly to enums and back."""
import os
from lib import core
from lib.core import CheckFailure

GENERATORS = ['enums']
TRUSTED_BASE = [
    'Coq 8.16.1 kernel (coqc); vm_compute used for the boolean table checkers; no axioms (Print Assumptions: closed)',
    'translator tools/gen_enums.py (typeenum!/afisafi!/path_attributes! invocations, AddpathDirection/SegmentType/Details matches; macro definitions pinned by normal-form hash in tools/pins.json)',
    'Model/Enums.v interpreter of the tables (mirrors the typeenum! expansion), tied by the exhaustive correspondence run',
    'extraction: ExtrOcamlBasic only; ocaml/rt.ml, ocaml/c18.ml printers; harness/src/c18.rs',
]
ASSUMPTIONS = [
    'the Rust compiler rejects an enum with duplicate variant names and a non-exhaustive reverse match',
    'K2 (codes 0 and 4 drop a non-zero subcode) is excluded from c18_details and reported as a known finding',
]


def domain(ctx):
    """AFI/SAFI pairs pushed through model and implementation: all SAFIs for the AFIs
    0..=40, 255..=257, 65535 and for every AFI of the table; plus seeded random pairs."""
    rng = core.SplitMix(ctx.seed)
    afis = set(range(0, 41)) | {255, 256, 257, 511, 512, 32768, 65534, 65535}
    for a, s, n in ctx.gen_info.get('enums', {}).get('afisafi', []):
        afis.add(a)
    pairs = [(a, s) for a in sorted(afis) for s in range(256)]
    n_rand = 20000 if ctx.tier == 'quick' else 400000
    for _ in range(n_rand):
        pairs.append((rng.below(65536), rng.below(256)))
    return pairs


def run(ctx):
    d = core.case_dir('C18')
    pairs = domain(ctx)
    dom = os.path.join(d, 'afisafi_domain.txt')
    with open(dom, 'w') as f:
        for a, s in pairs:
            f.write('%d %d\n' % (a, s))
    impl, t_impl = core.run_tool(ctx.harness, ['c18', 'obs', dom])
    viol = [l for l in impl if l.startswith('VIOL ')]
    impl_obs = [l for l in impl if l and not l.startswith(('VIOL ', 'KNOWN ', 'ORACLE '))]
    evals = len(impl_obs)
    distinct = len(set(l.split(' ', 2)[2] if l.startswith('AFISAFI') else l for l in impl_obs
                       if 'Unimplemented' not in l and 'Unsupported' not in l))
    if ctx.model:
        model, t_model = core.run_tool(ctx.model, ['c18', 'obs', dom])
        diffs = core.diff_lines(model, impl_obs, sort=True, limit=10)
        for k, a, b in diffs:
            ctx.violation('model and implementation disagree on a code point', model=a, impl=b)
    # the property itself on the real crate: every code point, all 2^24 pairs, all 65536 details
    orc, t_orc = core.run_tool(ctx.harness, ['c18', 'oracle'])
    for l in orc:
        if l.startswith('VIOL '):
            ctx.violation('implementation violates the property', impl=l[5:])
        elif l.startswith('KNOWN K2 '):
            ctx.known_hit('K2', l[9:])
        elif l.startswith('ORACLE '):
            ctx.notes.append('oracle ' + l[7:])
    for l in viol:
        ctx.violation('implementation violates the property', impl=l[5:])
    n_enum = len(ctx.gen_info.get('enums', {}).get('enums', []))
    ctx.coverage.update({
        'evaluations': evals + (1 << 24) + 65536,
        'distinct_nontrivial': distinct,
        'rule': 'correspondence: every code point 0..2^w-1 of each of the %d enumerations, %d AFI/SAFI pairs '
                '(all SAFIs of %d selected AFIs + seeded random pairs), all 65536 (code, subcode) pairs; '
                'non-trivial = observation that is not the default catch-all line, counted as distinct lines. '
                'oracle: all 2^24 AFI/SAFI pairs and every code point on the real conversions'
                % (n_enum, len(pairs), len(set(a for a, _ in pairs))),
        'exhaustive': True,
        'input_distribution': {'enums': n_enum, 'afisafi_pairs_corr': len(pairs), 'afisafi_pairs_oracle': 1 << 24,
                               'details_pairs': 65536},
    })
    ctx.samples = [l for l in impl_obs if l.startswith('AFISAFI')][:3] + \
                  [l for l in impl_obs if l.startswith('ENUM ')][:3] + \
                  [l for l in impl_obs if l.startswith('DETAILS 6 2')][:1]


def replay(ctx, path):
    run(ctx)
