"""C20 - a session timer never fires early, nor after it was stopped."""
import os
from lib import core
from lib.core import CheckFailure

GENERATORS = ['timer']
TRUSTED_BASE = [
    'Coq 8.16.1 kernel (coqc); vm_compute only for the non-vacuity example; no axioms (Print Assumptions: closed)',
    'hand-written Model/Timer.v: the handle, the timer task and the capacity-1 tick channel as a discrete-time system in ms; '
    'tokio is modelled, not verified: interval fires at its deadlines and not before, interval.reset() restarts the period, a '
    'capacity-1 mpsc channel, a fired or dropped oneshot ends the task; the model is the settled system (the task reacts to a '
    'command before time moves on) and says nothing once a tick overruns an unconsumed one',
    'translator tools/gen_timer.py: channel capacity generated, the bodies of new / tick / drain_ticks / start / timer_inner / '
    'stop_and_reset / reset / is_running and the struct pinned by normal-form hash (tools/pins.json, key timer_pinned)',
    'correspondence through the cfg hook that re-exports Timer: histories under tokio::time::pause() on a current-thread runtime, '
    'yield_now after every call; extraction: ExtrOcamlBasic only; ocaml/c20.ml, harness/src/c20.rs; Python oracle in props/c20.py',
]
ASSUMPTIONS = [
    'partial: the scheduler is not modelled.  On a multi-thread runtime, or when a command and a deadline fall on the same '
    'instant, tokio::select! may let the task send one more tick after a stop or reset was issued; the theorems are about the '
    'settled system and the correspondence never puts a command on a deadline',
    'histories in which a second tick falls due while one is still waiting to be awaited are outside the property and the '
    'theorems (t_overrun); the correspondence stops comparing a history at its first overrun',
    'an interval of 0 seconds (tokio::time::interval panics inside the spawned task) is outside the model: 0 < interval',
]

UNIT = 2600          # ms; 13 * UNIT = 3.38 intervals, no multiple of UNIT below 50 * UNIT is a multiple of 10000
STEPS = [1, 2, 4, 6]


def fine_ok(ops, interval=10000):
    """no command of this history lands exactly on a deadline of the running timer (a paused clock makes such a coincidence exact,
    and which of the two happens first is then not part of the property)"""
    now, anchor, running, pending = 0, None, False, False
    for o in ops:
        if o == 's':
            anchor, running, pending = now, True, False
        elif o == 'r':
            if running:
                anchor, pending = now, False
        elif o == 'x':
            running, pending = False, False
        else:
            d = int(o[1:])
            if not running:
                now += d
                continue
            nxt = anchor + ((now - anchor) // interval + 1) * interval
            if o[0] == 'a':
                if now + d == nxt or (now + d > nxt and (now + d - anchor) % interval == 0):
                    return False
                if now + d > nxt:
                    if pending or now + d > nxt + interval:
                        return True        # an overrun: the model marks it and the rest is not compared
                    pending = True
                now += d
            else:
                if pending:
                    pending = False
                elif nxt - now == d:
                    return False
                elif nxt - now < d:
                    now = nxt
                else:
                    now += d
    return True


def gen_cases(ctx):
    rng = core.SplitMix(ctx.seed)
    cases = []
    alpha = ['s', 'r', 'x'] + ['a%d' % (k * UNIT) for k in (1, 2, 4)] + ['w%d' % (k * UNIT) for k in (1, 2, 4, 10)]
    depth = 4 if ctx.tier == 'quick' else 5

    def rec(prefix):
        if prefix:
            cases.append(list(prefix))
        if len(prefix) == depth:
            return
        for a in alpha:
            rec(prefix + [a])
    rec([])
    # every exhaustive history once more behind a prefix that leaves a tick pending, and one that leaves the timer stopped
    base = [c for c in cases if len(c) <= 3]
    for pre in (['s', 'a%d' % (4 * UNIT)], ['s', 'w%d' % (4 * UNIT), 'x'], ['s', 'a%d' % UNIT, 'r']):
        for c in base:
            cases.append(pre + c)
    n_rand = 1500 if ctx.tier == 'quick' else 40000
    for _ in range(n_rand):
        n = 6 + rng.below(20)
        ops = []
        t = 0
        for _ in range(n):
            k = rng.below(10)
            if k < 2:
                ops.append('s')
            elif k < 4:
                ops.append('r')
            elif k < 5:
                ops.append('x')
            elif k < 7:
                ops.append('a%d' % (rng.choice(STEPS) * UNIT))
            else:
                ops.append('w%d' % (rng.choice(STEPS + [10]) * UNIT))
        cases.append(ops)
    # fine-grained histories: commands a few milliseconds apart (1 .. 1003 ms), so that anything keyed to "how long ago was the last
    # reset / start / stop" is exercised; histories in which a command would land exactly on a deadline are dropped (fine_ok)
    smalls = [1, 3, 97, 249, 250, 251, 499, 1003]
    fine = []
    for d1 in smalls:
        for d2 in smalls[:6]:
            fine.append(['s', 'a%d' % d1, 'r', 'a%d' % d2, 'r', 'w%d' % (4 * UNIT)])
            fine.append(['s', 'a%d' % d1, 'x', 's', 'a%d' % d2, 'r', 'w%d' % (4 * UNIT)])
            fine.append(['s', 'a%d' % d2, 'r', 'w%d' % (4 * UNIT), 'a%d' % d1, 'r', 'a%d' % d2, 'r', 'w%d' % (4 * UNIT)])
    for _ in range(600 if ctx.tier == 'quick' else 20000):
        ops = []
        for _ in range(5 + rng.below(14)):
            k = rng.below(10)
            if k < 2:
                ops.append('s')
            elif k < 5:
                ops.append('r')
            elif k < 6:
                ops.append('x')
            elif k < 8:
                ops.append('a%d' % rng.choice(smalls))
            else:
                ops.append('w%d' % (rng.choice([1, 2, 4]) * UNIT))
        fine.append(ops)
    cases += [c for c in fine if fine_ok(c)]
    # commands back to back: in every run of two or more consecutive commands all but the last are issued without giving the timer
    # task a turn (S / R / X), as code that calls start(); stop_and_reset() with no await in between does; the settled model
    # applies unchanged because no time passes inside such a run
    def back_to_back(ops):
        out = list(ops)
        changed = False
        for i in range(len(out) - 1):
            if out[i] in ('s', 'r', 'x') and out[i + 1][0] in 'srxSRX':
                out[i] = out[i].upper()
                changed = True
        return out if changed else None
    b2b = [x for x in (back_to_back(c) for c in cases[:60000] if len(c) <= 6) if x]
    cases += b2b
    # resets with time passing in between while the timer task gets no turn (A<ms>: the session doing synchronous work between two
    # resets): the tick comes one interval after the *last* of them.  No deadline lies inside such a stretch.
    for d1 in (97, 2600):
        for g in (250, 1000, 1003):
            for g2 in (None, 499):
                mid = ['R', 'A%d' % g] + (['R', 'A%d' % g2] if g2 else [])
                cases.append(['s', 'a%d' % d1] + mid + ['r', 'w%d' % (10000 - 100), 'w%d' % 200, 'w2600'])
                cases.append(['s', 'a%d' % d1] + mid + ['r', 'a%d' % 5000, 'r', 'w%d' % (10000 - 100), 'w%d' % 200])
                cases.append(['s', 'w%d' % 10400] + mid + ['r', 'w%d' % (10000 - 100), 'w%d' % 200])
    # keep total elapsed time below 50 units so that no command lands on a deadline
    out = []
    for ops in cases:
        tot = 0
        keep = []
        for o in ops:
            if o[0] in 'awA':
                d = int(o[1:])
                if tot + d >= 49 * UNIT:
                    break
                tot += d
            keep.append(o)
        if keep:
            out.append(keep)
    return out


def oracle(ctx, ops, toks, line, interval):
    """the property on one implementation history (up to the first overrun, which the model marks)"""
    last_anchor = None
    on = False
    start_t = None
    now = 0
    for o, tk in zip(ops, toks):
        if tk == 'OVERRUN':
            return
        if o[0] in 'SRXA':
            o = o.lower()
        if o == 's':
            last_anchor = now
            on = True
            start_t = now
        elif o == 'r':
            last_anchor = max(last_anchor or 0, now) if last_anchor is not None else now
        elif o == 'x':
            on = False
        elif o[0] == 'a':
            now += int(o[1:])
        elif o[0] == 'w':
            if tk.startswith('T@'):
                t = int(tk[2:].split('/')[0])
                if not on:
                    ctx.violation('a tick was observed while the timer was stopped', case=line.split(' | ')[0], impl=line, at=t)
                    return
                if last_anchor is not None and t < last_anchor + interval:
                    ctx.violation('a tick was observed less than one interval after the last start / reset',
                                  case=line.split(' | ')[0], impl=line, at=t)
                    return
                now = t
            else:
                now = int(tk[2:])


def run(ctx):
    d = core.case_dir('C20')
    cases = gen_cases(ctx)
    path = os.path.join(d, 'cases.txt')
    # intervals far beyond 16 bits of seconds as well (a paused clock makes the waits free): the interval given to Timer::new is
    # the interval that counts
    long_cases = []
    for secs in (65535, 65536 + 1, 65536 + 10, 70000, 2 * 65536 + 1, 4294967):
        long_cases.append((secs, ['s', 'w5200', 'a1003', 'r', 'w5200', 'x', 's', 'w2600']))
        long_cases.append((secs, ['s', 'a2600', 'w2600', 'r', 'a97', 'w2600', 'w13000']))
        long_cases.append((secs, ['s', 'w%d' % (secs * 1000 + 2600), 'w2600', 'r', 'w%d' % (secs * 1000 - 1), 'w2600']))
    all_cases = [(10, ops) for ops in cases] + long_cases
    with open(path, 'w') as f:
        for secs, ops in all_cases:
            f.write('TMR %d %s\n' % (secs, ','.join(ops)))
    impl, _ = core.run_tool(ctx.harness, ['c20', 'obs', path], timeout=3000)
    impl = [l for l in impl if l]
    model = None
    if ctx.model:
        model, _ = core.run_tool(ctx.model, ['c20', 'obs', path])
        model = [l for l in model if l]
    # an interval of 0 seconds (hold time 0, the keepalive timer of a hold time below 3) is outside the model (0 < interval): on
    # the pinned code tokio's interval(0) panics inside the spawned task and such a timer never ticks.  The statement itself still
    # applies - no tick while stopped - and is checked on the implementation's histories alone.
    zero = [c for c in cases if len(c) <= 3] + [['s', 'x', 'w2600'], ['s', 'a50', 'x', 'a50', 'w500'], ['s', 'w100', 'x', 'w100', 's', 'x', 'w100']]
    zpath = os.path.join(d, 'cases0.txt')
    # likewise intervals so long that now + interval is not representable (2^63 s and more): outside the model, whose arithmetic
    # is exact; on the pinned code the timer task ends in tokio's overflow panic and such a timer never ticks
    huge = [(secs, ops) for secs in (1 << 63, (1 << 64) - 1) for ops in
            (['s', 'w2600'], ['s', 'a2600', 'r', 'w2600', 'w2600'], ['s', 'r', 'w2600'], ['s', 'a97', 'r', 'a97', 'r', 'w5200', 'x', 'w2600'])]
    with open(zpath, 'w') as f:
        for ops in zero:
            f.write('TMR 0 %s\n' % ','.join(ops))
        for secs, ops in huge:
            f.write('TMR %d %s\n' % (secs, ','.join(ops)))
    zimpl, _ = core.run_tool(ctx.harness, ['c20', 'obs', zpath], timeout=3000)
    n_zero = 0
    for l in zimpl:
        if not l:
            continue
        head, _, obs = l.partition(' | ')
        if obs == 'PANIC':
            ctx.violation('a timer history panicked', case=head, impl=l)
            continue
        if obs in ('HANG', 'SKIPPED'):
            if obs == 'HANG':
                ctx.violation('a timer history did not end within 30 s of wall-clock time under a paused clock (a task that spins)', case=head, impl=l)
            continue
        n_zero += 1
        oracle(ctx, head.split()[2].split(','), obs.split(), l, 1000 * int(head.split()[1]))
    n_over = 0
    n_tick = 0
    n_stale = 0
    shapes = set()
    for k, l in enumerate(impl):
        head, _, obs = l.partition(' | ')
        ops = head.split()[2].split(',')
        toks = obs.split()
        if obs == 'PANIC':
            ctx.violation('a timer history panicked', case=head, impl=l)
            continue
        if obs in ('HANG', 'SKIPPED'):
            if obs == 'HANG':
                ctx.violation('a timer history did not end within 30 s of wall-clock time under a paused clock (a task that spins)', case=head, impl=l)
            continue
        mt = None
        if model is not None:
            ml = model[k] if k < len(model) else '<missing>'
            mt = ml.partition(' | ')[2].split()
            cut = mt.index('OVERRUN') if 'OVERRUN' in mt else len(mt)
            if ml.partition(' | ')[0] != head or mt[:cut] != toks[:cut]:
                ctx.violation('model and implementation disagree on a timer history', case=head, model=ml, impl=l)
            if cut < len(mt):
                n_over += 1
        oracle(ctx, ops, mt if mt is not None else toks, l, 1000 * int(head.split()[1]))
        nt = sum(1 for t in toks if t.startswith('T@'))
        n_tick += nt
        shapes.add(' '.join(t.split('@')[0] for t in toks))
    ctx.coverage.update({
        'evaluations': len(impl),
        'distinct_nontrivial': len(shapes),
        'rule': 'correspondence: every history over {start, reset, stop, advance 1/2/4 units, await with timeout 1/2/4/10 units} up to '
                'depth %d (unit = 0.26 interval, so no command lands on a deadline), the short ones again behind three prefixes (tick '
                'pending, stopped, reset), seeded random histories of 6..25 operations; compared token by token up to the first overrun; '
                'non-trivial = distinct outcome shapes (sequence of run flags / tick / timeout); oracle: no tick while stopped, none '
                'earlier than one interval after the last start or reset' % (4 if ctx.tier == 'quick' else 5),
        'exhaustive': False,
        'input_distribution': {'histories': len(impl), 'ticks_observed': n_tick, 'histories_with_overrun': n_over,
                               'max_len': max(len(c) for c in cases), 'zero_interval_histories_oracle_only': n_zero},
    })
    ctx.samples = [l for l in impl if l.count('T@') >= 2][:2] + [l for l in impl if ',x,' in l and 'T@' in l][:2]


def replay(ctx, path):
    run(ctx)
