"""C12 - negotiated parse configuration matches the capabilities both sides sent."""
import os, struct
from lib import core, bgpenc
from lib.core import CheckFailure

GENERATORS = ['merge', 'enums', 'fsm']
TRUSTED_BASE = [
    'Coq 8.16.1 kernel (coqc); vm_compute for the 9-pair merge table and the rx table; no axioms',
    'translator tools/gen_merge.py (AddpathDirection::merge arms, SessionConfig::rx_addpath/get_addpath/add_famdir shapes)',
    'hand-written model Model/Negotiate.v (addpath_families_vec, addpath_intersection, session_config, pph_session_config, live session) and Model/Open.v (capability TLV walk), tied by the correspondence run',
    'extraction: ExtrOcamlBasic only; ocaml/c12.ml, harness/src/c12.rs printers; lib/bgpenc.py reference OPEN encoder (generator only)',
]
ASSUMPTIONS = [
    'each family is advertised at most once per OPEN (NoDup hypothesis of c12_get/c12_rx/c12_swap); duplicates are exercised by the correspondence only',
    'AfiSafiType::from is injective (C18), so families are modelled as (AFI, SAFI) pairs',
]

UNIVERSE = [(1, 1), (1, 2), (2, 1), (2, 128), (25, 70), (1, 99), (1, 77), (3, 1)]     # the last three have no named AfiSafiType variant (Unsupported(a, s))


def dir_spec(m, o):
    rx = m in (1, 3) and o in (2, 3)
    tx = m in (2, 3) and o in (1, 3)
    return 3 if rx and tx else 1 if rx else 2 if tx else 0


def build_open(famdirs, four, placement, rng, extra_caps=True):
    """famdirs: list of ((a,s), d) with d in 1..3 ; placement 0: one cap, 1: one cap per family in one
    parameter, 2: one parameter per capability, 3: mixed with other capabilities"""
    caps = []
    if extra_caps:
        caps.append(bgpenc.cap(1, bgpenc.mp_value(1, 1)))
    if four:
        caps.append(bgpenc.cap(65, (4200000000 + rng.below(1000)).to_bytes(4, 'big')))
    ap = []
    if famdirs:
        if placement == 0:
            ap = [bgpenc.cap(69, bgpenc.addpath_value(famdirs))]
        elif placement == 3 and len(famdirs) > 1:
            k = 1 + rng.below(len(famdirs) - 1)
            ap = [bgpenc.cap(69, bgpenc.addpath_value(famdirs[:k])), bgpenc.cap(2),
                  bgpenc.cap(69, bgpenc.addpath_value(famdirs[k:]))]
        else:
            ap = [bgpenc.cap(69, bgpenc.addpath_value([fd])) for fd in famdirs]
    caps = caps + ap
    if extra_caps and rng.chance(1, 2):
        caps.append(bgpenc.cap(2))
    if placement == 2:
        params = b''.join(bgpenc.param(2, c) for c in caps)
    else:
        params = bgpenc.param(2, b''.join(caps))
    if rng.chance(1, 8):
        params = bgpenc.param(1, b'\x00\x01') + params   # a non-capability parameter (see C03 / F7)
    if len(params) > 255:
        return None
    return bgpenc.open_msg(asn16=64512 + rng.below(100), params=params)


def gen_cases(ctx):
    rng = core.SplitMix(ctx.seed)
    cases = []
    cid = [0]

    def add(assign, l4, p4, legacy, pl_l, pl_p):
        local = [(f, assign[f][0]) for f in UNIVERSE if f in assign and assign[f][0]]
        peer = [(f, assign[f][1]) for f in UNIVERSE if f in assign and assign[f][1]]
        if rng.chance(1, 2):
            peer = list(reversed(peer))
        lo = build_open(local, l4, pl_l, rng)
        po = build_open(peer, p4, pl_p, rng)
        if lo is None or po is None:
            return
        probes = UNIVERSE + [(1, 4)]
        fams = ','.join('%d.%d:%d%s' % (a, s, dir_spec(*assign.get((a, s), (0, 0))),
                                       'r' if dir_spec(*assign.get((a, s), (0, 0))) in (1, 3) else '-')
                        for a, s in probes)
        bgp4 = 1 if (l4 and p4) else 0
        pph4 = 0 if legacy else 1
        exp = {'helper': 'four=%d fams=%s' % (bgp4, fams), 'bmp': 'four=%d fams=%s' % (bgp4, fams),
               'pph': 'incons=%d four=%d fams=%s' % (0 if pph4 == bgp4 else 1, pph4, fams)}
        cases.append({'id': cid[0], 'local': lo, 'peer': po, 'legacy': legacy,
                      'probes': ','.join('%d.%d' % p for p in probes), 'exp': exp,
                      'desc': {'assign': {('%d.%d' % f): v for f, v in assign.items()}, 'l4': l4, 'p4': p4,
                               'legacy': legacy, 'placement': (pl_l, pl_p)}})
        cid[0] += 1

    # exhaustive: all 16 combinations on one family x the others random, x placements x 4-octet x legacy
    for f0 in UNIVERSE:
        for ld in range(4):
            for pd in range(4):
                for pl in range(4):
                    for l4, p4 in ((0, 0), (0, 1), (1, 0), (1, 1)):
                        assign = {f0: (ld, pd)}
                        for f in UNIVERSE:
                            if f != f0 and rng.chance(1, 2):
                                assign[f] = (rng.below(4), rng.below(4))
                        add(assign, l4, p4, rng.below(2), pl, rng.below(4))
    # joint exhaustive over 2 (quick) or 3 (thorough) families
    joint = UNIVERSE[:2] if ctx.tier == 'quick' else UNIVERSE[:3]
    import itertools
    for combo in itertools.product(range(16), repeat=len(joint)):
        assign = {f: (c // 4, c % 4) for f, c in zip(joint, combo)}
        add(assign, rng.below(2), rng.below(2), rng.below(2), rng.below(4), rng.below(4))
    n_rand = 1500 if ctx.tier == 'quick' else 60000
    for _ in range(n_rand):
        assign = {f: (rng.below(4), rng.below(4)) for f in UNIVERSE if rng.chance(2, 3)}
        add(assign, rng.below(2), rng.below(2), rng.below(2), rng.below(4), rng.below(4))
    return cases


def malformed_cases(ctx, start):
    """OPENs whose ADD-PATH capability is malformed (bad direction, short chunk): nothing negotiated."""
    rng = core.SplitMix(ctx.seed + 77)
    out = []
    for k in range(60):
        good = bgpenc.cap(69, bgpenc.addpath_value([((1, 1), 3)]))
        if k % 3 == 0:
            bad = bgpenc.cap(69, bgpenc.addpath_value([((1, 1), 3)]) + b'\x00\x02\x01')       # short chunk
        elif k % 3 == 1:
            bad = bgpenc.cap(69, bgpenc.addpath_value([((1, 1), 0)]))                         # direction 0
        else:
            bad = bgpenc.cap(69, bgpenc.addpath_value([((2, 1), 3)]) + bytes([0, 1, 1, 0]))
        lo = bgpenc.open_msg(params=bgpenc.param(2, good))
        po = bgpenc.open_msg(params=bgpenc.param(2, bad))
        if rng.chance(1, 2):
            lo, po = po, lo
        out.append({'id': start + k, 'local': lo, 'peer': po, 'legacy': 0, 'probes': '1.1,2.1', 'exp': None,
                    'desc': {'malformed': k % 3}})
    return out


def live_cases(ctx):
    """the live session: the peer's OPEN arrives in OpenSent, or in Active with the DelayOpen timer running (two copies of the
    derivation in Session::handle_event); every direction combination of two families x local ADD-PATH list x capability 65.
    Then the same Session negotiating a second time: the connection fails, a new stream is attached (Session::attach_stream) and
    the peer's OPEN now says something else - what the new connection decodes with follows from the OPENs of the new connection"""
    rng = core.SplitMix(ctx.seed + 77)
    MARKER = b'\xff' * 16
    DIRS = {0: '-', 1: '2', 2: '1', 3: '3'}

    def mk_open(d1, d2, d3, four):
        ent = [(f, d) for f, d in (((1, 1), d1), ((2, 1), d2), ((1, 2), d3)) if d]
        if rng.chance(1, 2):
            ent.reverse()
        caps = []
        if four:
            caps.append(bytes([65, 4]) + struct.pack('>I', 65001))
        if ent:
            if len(ent) > 1 and rng.chance(1, 3):
                for f, dd in ent:
                    caps.append(bytes([69, 4]) + struct.pack('>HBB', f[0], f[1], dd))
            else:
                v = b''.join(struct.pack('>HBB', f[0], f[1], dd) for f, dd in ent)
                caps.append(bytes([69, len(v)]) + v)
        if rng.chance(1, 2):
            caps.reverse()
        pv = b''.join(caps)
        pb = bytes([2, len(pv)]) + pv if caps else b''
        body = bytes([4]) + struct.pack('>HH', 65001, 90) + bytes([10, 0, 0, 2, len(pb)]) + pb
        return MARKER + struct.pack('>HB', 19 + len(body), 1) + body, {'1.1': d1, '2.1': d2, '1.2': d3}

    def expect(local, peer, four):
        loc = [] if local == '-' else local.split(',')
        shown = sorted(set(loc + ['1.1', '2.1', '1.2']))
        return '%d/%s' % (four, ','.join('%s:%s' % (f, DIRS[peer[f]] if f in loc else '-') for f in shown))

    out = []
    for delay in (0, 1):
        for local in ('-', '1.1', '2.1', '1.1,2.1', '1.1,1.2,2.1'):
            for d1 in range(4):
                for d2 in range(4):
                    for four in (0, 1):
                        msg, peer = mk_open(d1, d2, rng.below(4), four)
                        # every second case applies the negotiated configuration once more (set_negotiated_config is public): a no-op
                        out.append({'line': 'FSM %d %d 90 %s e:ManualStartWithPassiveTcpEstablishment;e:TcpConnectionConfirmed;m:%s%s'
                                            % (len(out), delay, local, msg.hex(), ';G' if (len(out) // 2) % 2 else ''), 'exp': expect(local, peer, four), 'opens': 1,
                                    'desc': {'delay_open': delay, 'local': local, 'peer': peer, 'four': four}})
    # a second (and third) negotiation on the same Session
    for delay in (0, 1):
        for local in ('1.1', '1.1,2.1', '1.1,1.2,2.1'):
            for _ in range(40 if ctx.tier == 'quick' else 400):
                steps = ['e:ManualStartWithPassiveTcpEstablishment', 'e:TcpConnectionConfirmed']
                n_conn = rng.choice([2, 2, 3])
                for k in range(n_conn):
                    four = rng.below(2)
                    msg, peer = mk_open(rng.below(4), rng.below(4), rng.below(4), four)
                    if k:
                        # how the previous connection ended: before or after the session was established
                        steps += rng.choice([['e:TcpConnectionFails'], ['e:KeepaliveMsg', 'e:TcpConnectionFails'], ['e:KeepaliveMsg', 'e:ManualStop']])
                        steps += ['e:ManualStartWithPassiveTcpEstablishment', 'A:%s' % msg.hex()]
                    steps.append('m:%s' % msg.hex())
                out.append({'line': 'FSM %d %d 90 %s %s' % (len(out), delay, local, ';'.join(steps)), 'exp': expect(local, peer, four),
                            'opens': n_conn, 'desc': {'delay_open': delay, 'local': local, 'connections': n_conn, 'peer': peer, 'four': four}})
    return out


def run_live(ctx, d):
    cases = live_cases(ctx)
    path = os.path.join(d, 'live.txt')
    with open(path, 'w') as f:
        f.write('\n'.join(c['line'] for c in cases) + '\n')
    impl, _ = core.run_tool(ctx.harness, ['c08', path], timeout=3000)
    impl = [l for l in impl if l]
    by = {int(l.split(' ')[1]): l for l in impl}
    for i, c in enumerate(cases):
        if len(ctx.violations) > 10:
            break
        l = by.get(i)
        if l is None:
            ctx.violation('no result from the implementation harness (live session)', case=c['line'][:300]); continue
        last = l.split(' ; ')[-1]
        head = last.split('|')[0].split(',', 4)
        st, cfg = head[0].split(' ')[-1], (head[4] if len(head) > 4 else '?')
        # the OPEN this side sent (printed with what it advertises): the configuration must follow from *both* OPENs
        import re as _re
        sent = _re.findall(r'open\[4=(\d);ap=([^\]]*)\]', l)
        loc = [] if c['desc']['local'] == '-' else c['desc']['local'].split(',')
        if 'PANIC' in l:
            ctx.violation('the live session panicked on an OPEN', case=c['desc'], impl=last[:200], line=c['line'][:400])
        elif len(sent) != c['opens']:
            ctx.violation('live session: expected exactly one OPEN to be sent per connection', case=c['desc'], impl=l[:300], line=c['line'][:400])
        elif any(sorted(x for x in sn[1].split(',') if x) != sorted('%s:3' % f for f in loc) for sn in sent):
            ctx.violation('live session: the OPEN sent does not advertise ADD-PATH send+receive for exactly the configured families',
                          case=c['desc'], impl=l[:300], line=c['line'][:400])
        elif cfg != '?' and cfg.split('/')[0] != str(int(sent[-1][0] == '1' and c['desc']['four'] == 1)):
            ctx.violation('live session: four-octet decoding is not enabled exactly when both OPENs carry the capability (sent OPEN: %s, peer OPEN: %d)'
                          % (sent[-1][0], c['desc']['four']), case=c['desc'], impl=last[:200], line=c['line'][:400])
        elif st != 'OpenConfirm' or cfg != c['exp']:
            ctx.violation('live session: the configuration the connection decodes with differs from the RFC 7911 / capability-65 rule',
                          case=c['desc'], expected='OpenConfirm ' + c['exp'], impl=last[:200], line=c['line'][:400])
    if ctx.model:
        model, _ = core.run_tool(ctx.model, ['c08', path], timeout=3000)
        for k, a, b in core.diff_lines(model, impl, limit=5):
            ctx.violation('model and implementation disagree (live session)', model=a[:400], impl=b[:400])
    return len(cases)


def run(ctx):
    d = core.case_dir('C12')
    n_live = run_live(ctx, d)
    cases = gen_cases(ctx)
    cases += malformed_cases(ctx, len(cases))
    path = os.path.join(d, 'cases.txt')
    with open(path, 'w') as f:
        for c in cases:
            f.write('%d %s %s %d %s\n' % (c['id'], c['local'].hex(), c['peer'].hex(), c['legacy'], c['probes']))
    impl, _ = core.run_tool(ctx.harness, ['c12', path])
    impl = [l for l in impl if l]
    by_id = {}
    for l in impl:
        p = l.split(' ', 3)
        by_id.setdefault(int(p[1]), {})[p[2]] = p[3]
    # oracle: the property statement on the implementation's answers
    for c in cases:
        got = by_id.get(c['id'], {})
        if c['exp'] is None:
            for k in ('helper', 'bmp', 'pph'):
                v = got.get(k, '<missing>')
                if 'PANIC' in v:
                    ctx.violation('panic on a malformed ADD-PATH capability', case=c['desc'], impl=v,
                                  local=c['local'].hex(), peer=c['peer'].hex())
            continue
        for k in ('helper', 'bmp', 'pph'):
            v = got.get(k, '<missing>')
            v2 = v.split(' ', 1)[1] if k == 'helper' and v.startswith('isect=') else v
            if v2 != c['exp'][k]:
                ctx.violation('derived configuration differs from the RFC 7911 / capability-65 rule (%s path)' % k,
                              case=c['desc'], expected=c['exp'][k], impl=v, local=c['local'].hex(), peer=c['peer'].hex())
                break
        if len(ctx.violations) > 10:
            break
    if ctx.model:
        model, _ = core.run_tool(ctx.model, ['c12', path])
        for k, a, b in core.diff_lines(model, impl, limit=5):
            ctx.violation('model and implementation disagree', model=a, impl=b)
    distinct = len(set(l.split(' ', 2)[2] for l in impl))
    ctx.coverage.update({
        'evaluations': len(impl),
        'distinct_nontrivial': distinct,
        'rule': 'cases = pairs of OPEN messages built by the Python reference encoder: all 16 (local,peer) direction '
                'combinations per family of a 5-family universe x 4 capability placements x 4 four-octet combinations, '
                'joint exhaustive over %d families, seeded random assignments, malformed ADD-PATH capabilities; each case '
                'through the intersection helper, the BMP OPEN-based and per-peer-header derivations; distinct = distinct '
                'observation lines; plus the live session through the cfg hooks: the peer OPEN handled in OpenSent and in Active with the '
                'DelayOpen timer running, all 16 direction combinations of two families (a third at random) x 5 local ADD-PATH lists x '
                'capability 65 present / absent, judged against the rule and the model' % (2 if ctx.tier == 'quick' else 3),
        'exhaustive': False,
        'input_distribution': {'cases': len(cases), 'malformed': 60, 'live_session_cases': n_live},
    })
    ctx.samples = impl[:3] + impl[-3:]


def replay(ctx, path):
    run(ctx)
