"""C15 - BMP messages decode faithfully and malformed ones cannot panic the monitor."""
import os
import re
import struct
from lib import core, updenc
from lib.core import CheckFailure
from props import c03

GENERATORS = ['bmp', 'caps', 'attrs', 'enums']
TRUSTED_BASE = [
    'Coq 8.16.1 kernel (coqc); no axioms (Print Assumptions: closed)',
    'hand-written Model/Bmp.v (the seven checks, the dispatch, every accessor and iterator, with each slice index / unwrap / '
    'expect / unchecked subtraction as an explicit Panic) over the models of the embedded BGP decoders (Model/Open.v, OpenMsg.v, '
    'Update.v); the bodies it mirrors are pinned by normal-form hash (tools/gen_bmp.py, pins.json key bmp_pinned)',
    'tied by a differential run: an independent Python encoder builds well-formed messages of the seven types (header fields, '
    'statistics of every defined type, TLV lists, OPEN pairs, NOTIFICATIONs, UPDATEs of every family), plus mutations (length '
    'fields that disagree with the octets, truncations, flipped octets, appended octets) and random octets; implementation and '
    'extracted model print every accessor; the Python encoder\'s field values are the oracle for faithful decoding',
    'extraction: ExtrOcamlBasic only; ocaml/c15.ml, harness/src/c15.rs',
]
ASSUMPTIONS = [
    'usize is 64 bits (the length check compares the u32 length field with the number of octets)',
    'chrono (0.4 as locked): Utc.timestamp_opt(secs, nanos) is Single exactly for nanos < 10^9, or nanos < 2*10^9 when secs % 60 == 59 (leap second); secs is a u32 here',
    'TerminationInformation::CustomString is compared on ASCII strings only (String::from_utf8_lossy rewrites other octets)',
    'PeerUpNotification::session_config / pph_session_config / supported_protocols are exercised for panics only; what they '
    'compute is C12',
    'RouteMirroring: only the headers exist in the implementation (the TLV iterator is commented out)',
]

NOTIF = lambda code, sub, data=b'': c03.hdr(21 + len(data), 3) + bytes([code, sub]) + data


def common(typ, body, length=None):
    n = 6 + len(body)
    return bytes([3]) + struct.pack('>I', n if length is None else length) + bytes([typ]) + body


# the oracle's own protocol tables (RFC 7854 / 8671 / 9069): names of the code points the decoder reports
PEER_TYPE_NAMES = {0: 'GlobalInstance', 1: 'RdInstance', 2: 'LocalInstance', 3: 'LocalRibInstance'}
TLV_NAMES = {0: 'String', 1: 'SysDesc', 2: 'SysName', 3: 'VrfTableName', 4: 'AdminLabel'}


def tlv_name(t):
    return TLV_NAMES.get(t, 'Undefined(%d)' % t)


def gen_pph(rng):
    pt = rng.choice([0, 0, 1, 2, 3])
    fl = rng.choice([0, 0x80, 0x40, 0x20, 0x10, 0xc0, 0xf0, rng.below(256)])
    dist = rng.bytes(8) if pt in (1, 2) or rng.chance(1, 4) else bytes(8)
    addr = rng.addr(True) if fl & 0x80 else bytes(12) + rng.addr(False)
    asn = rng.choice([0, 65000, 4200000000, rng.below(1 << 32)])
    bid = rng.bytes(4)
    secs = rng.choice([0, 1, 1700000000, 0xffffffff, rng.below(1 << 32)])
    us = rng.choice([0, 1, 999999, 1000000, 1999999, 2000000, 4294967, 4294968, 0xffffffff, rng.below(1000000), rng.below(1 << 32)])
    raw = bytes([pt, fl]) + dist + addr + struct.pack('>I', asn) + bid + struct.pack('>II', secs, us)
    ns = min(us * 1000, 0xffffffff)
    exp = '%d.%s/%d/%s/%s/%d/%s/%s/%d/%d%d%d%d%d' % (
        pt, PEER_TYPE_NAMES[pt], fl, dist.hex(), ('6:' + addr.hex()) if fl & 0x80 else ('4:' + addr[12:].hex()), asn, bid.hex(),
        ('%d.%d' % (secs, ns)) if (ns < 1000000000 or (ns < 2000000000 and secs % 60 == 59)) else 'MIN', 2 if pt == 3 else (1 if fl & 0x10 else 0),
        0 if fl & 0x80 else 1, 1 if fl & 0x80 else 0, 0 if fl & 0x40 else 1, 1 if fl & 0x40 else 0, 1 if fl & 0x20 else 0)
    return raw, exp


def gen_open(rng, adversarial=False):
    params = []
    for _ in range(rng.below(4)):
        if rng.chance(1, 6):
            params.append(('raw', rng.choice([0, 1, 3, 255]), rng.bytes(rng.below(5))))
        else:
            caps = []
            for _ in range(1 + rng.below(3)):
                if adversarial and rng.chance(1, 2):
                    caps.append(c03.adversarial_cap(rng))       # count / length fields at their extremes: the check has to refuse, not panic
                    continue
                c = rng.choice([1, 1, 65, 69, 2, 64, 70, 73, 128, 200, 3, 130, 5, 71, 75])
                caps.append((c, c03.valid_cap_value(c, rng)))
            if sum(2 + len(v) for _, v in caps) <= 255:
                params.append(('caps', caps))
    while sum(2 + (sum(2 + len(v) for _, v in p[1]) if p[0] == 'caps' else len(p[2])) for p in params) > 255:
        params.pop()
    return c03.encode_open(4, rng.below(65536), rng.choice([0, 3, 90, 65535]), rng.bytes(4), params)


def gen_tlvs(rng, n=None):
    out = []
    for _ in range(rng.below(4) if n is None else n):
        t = rng.choice([0, 1, 2, 3, 4, 5, 65535])
        v = bytes(rng.choice(b'abcdefghij XYZ-09') for _ in range(rng.choice([0, 1, 5, 40, 300])))
        if rng.chance(1, 40):
            # lengths at the top of the u16 range (arithmetic on the length field)
            v = bytes([rng.choice(b'ab')]) * rng.choice([65531, 65532, 65533, 65535])
        out.append((t, v))
    return out


def enc_tlvs(tl):
    return b''.join(struct.pack('>HH', t, len(v)) + v for t, v in tl)


STAT_U32 = [0, 1, 2, 3, 4, 5, 6, 11, 12, 13]
STAT_U64 = [7, 8, 14, 15]
STAT_AS = [9, 10, 16, 17]


def gen_stats(rng):
    raw = b''
    exp = []
    for _ in range(rng.below(8)):
        k = rng.below(5)
        if k == 0:
            t = rng.choice(STAT_U32)
            v = rng.choice([0, 1, 0xffffffff, rng.below(1 << 32)])
            raw += struct.pack('>HHI', t, 4, v)
            exp.append('%d=%d' % (t, v))
        elif k == 1:
            t = rng.choice(STAT_U64)
            v = rng.choice([0, (1 << 64) - 1, 1 << 63, rng.next()])
            raw += struct.pack('>HHQ', t, 8, v)
            exp.append('%d=%d' % (t, v))
        elif k == 2:
            t = rng.choice(STAT_AS)
            a, s, v = rng.choice([1, 2, 25, 0, 65535]), rng.below(256), rng.choice([0, (1 << 64) - 1, rng.next()])
            raw += struct.pack('>HHHBQ', t, 11, a, s, v)
            exp.append('%d=%d/%d/%d' % (t, a, s, v))
        elif k == 3:
            t = rng.choice([18, 19, 100, 65535])
            v = rng.bytes(rng.choice([0, 4, 8, 11, 3]))
            raw += struct.pack('>HH', t, len(v)) + v
            exp.append('%d?%d' % (t, len(v)))
        else:
            # a defined type with a length that is not the defined one: reported as unimplemented
            t = rng.choice(STAT_U32 + STAT_U64 + STAT_AS)
            ln = rng.choice([0, 4, 8, 11, 5])
            if (t in STAT_U32 and ln == 4) or (t in STAT_U64 and ln == 8) or (t in STAT_AS and ln == 11):
                ln = 2
            raw += struct.pack('>HH', t, ln) + rng.bytes(ln)
            exp.append('%d?%d' % (t, ln))
    return raw, exp


def gen_valid(rng, upd_pool):
    """a well-formed message and the fields the decoder must report: (bytes, kind, {field: expected})"""
    k = rng.below(7)
    if k == 0:
        h, he = gen_pph(rng)
        u = rng.choice(upd_pool)
        b = common(0, h + u)
        return b, 'RM', {'pph': he, 'emb': u.hex()}
    if k == 1:
        h, he = gen_pph(rng)
        raw, exp = gen_stats(rng)
        b = common(1, h + struct.pack('>I', len(exp)) + raw)
        return b, 'SR', {'pph': he, 'count': str(len(exp)), 'stats': '[%s]' % ','.join(exp)}
    if k == 2:
        h, he = gen_pph(rng)
        r = rng.choice([1, 3, 1, 3, 2, 4, 5, 0, 6, 200])
        if r in (1, 3):
            if rng.chance(1, 4):
                return common(2, h + bytes([r])), 'PD', {'pph': he, 'reason': str(r), 'notif': '-', 'fsm': '-'}
            code, sub = rng.choice([(6, 2), (1, 1), (2, 4), (3, 11), (4, 0), (5, 3), (6, 7), (0, 0), (9, 9)])
            n = NOTIF(code, sub, rng.bytes(rng.choice([0, 0, 1, 6, 40])))
            return common(2, h + bytes([r]) + n), 'PD', {'pph': he, 'reason': str(r), 'notif': '%s:%d' % (n.hex(), code), 'fsm': '-'}
        if r == 2:
            ev = rng.below(65536)
            return common(2, h + bytes([2]) + struct.pack('>H', ev)), 'PD', {'pph': he, 'reason': '2', 'notif': '-', 'fsm': str(ev)}
        extra = rng.bytes(rng.choice([0, 0, 3]))
        return common(2, h + bytes([r]) + extra), 'PD', {'pph': he, 'reason': str(r) if r <= 5 else 'U', 'notif': '-', 'fsm': '-'}
    if k == 3:
        h, he = gen_pph(rng)
        # the 16-octet local address is an IPv4 address exactly when its first 12 octets are zero
        la = rng.addr(True) if rng.chance(1, 2) else bytes(12) + rng.addr(False)
        v6 = la[:12] != bytes(12)
        lp, rp = rng.below(65536), rng.below(65536)
        s, r = gen_open(rng), gen_open(rng)
        tl = gen_tlvs(rng)
        b = common(3, h + la + struct.pack('>HH', lp, rp) + s + r + enc_tlvs(tl))
        return b, 'PU', {'pph': he, 'local': '%s/%d/%d' % (('6:' + la.hex()) if v6 else ('4:' + la[12:].hex()), lp, rp),
                         'sent': s.hex(), 'rcvd': r.hex(), 'both': '%s/%s' % (s.hex(), r.hex()),
                         'tlvs': '[%s]' % ','.join('%d/%s:%s' % (t, tlv_name(t), v.hex() or '-') for t, v in tl)}
    if k == 4:
        tl = gen_tlvs(rng)
        return common(4, enc_tlvs(tl)), 'IN', {'tlvs': '[%s]' % ','.join('%d/%s:%s' % (t, tlv_name(t), v.hex() or '-') for t, v in tl)}
    if k == 5:
        info = []
        raw = b''
        for _ in range(rng.below(4)):
            if rng.chance(1, 2):
                v = bytes(rng.choice(b'abc xyz.09') for _ in range(rng.choice([0, 1, 2, 7, 100])))
                raw += struct.pack('>HH', 0, len(v)) + v
                info.append('S:%s' % (v.hex() or '-'))
            else:
                t = rng.choice([1, 1, 1, 2, 9])
                val = rng.choice([0, 1, 2, 3, 4, 5, 65535])
                raw += struct.pack('>HHH', t, 2, val)
                info.append('R:%d' % val)
        return common(5, raw), 'TM', {'info': '[%s]' % ','.join(info)}
    h, he = gen_pph(rng)
    return common(6, h + rng.bytes(rng.choice([0, 4, 30]))), 'MI', {'pph': he}


def mutate(rng, b):
    b = bytearray(b)
    k = rng.below(9)
    if k == 0 and len(b) > 5:            # the length field disagrees with the octets
        struct.pack_into('>I', b, 1, rng.choice([0, 5, 6, len(b) - 1, len(b) + 1, len(b) + 100, 0xffffffff, 48, 49]))
    elif k == 1:
        b = b[:rng.below(len(b) + 1)]     # truncated, length field untouched
    elif k == 2:
        cut = rng.below(len(b) + 1)       # truncated, length field adjusted
        b = b[:cut]
        if len(b) >= 5:
            struct.pack_into('>I', b, 1, len(b))
    elif k == 3:
        b += bytes(rng.below(256) for _ in range(1 + rng.below(6)))      # appended, length untouched
    elif k == 4:
        b += bytes(rng.below(256) for _ in range(1 + rng.below(30)))     # appended, length adjusted
        struct.pack_into('>I', b, 1, len(b))
    elif k == 5 and len(b) > 6:
        for _ in range(1 + rng.below(3)):
            b[6 + rng.below(len(b) - 6)] = rng.below(256)
    elif k == 6 and len(b) > 50:
        # a length-like field somewhere in the body
        i = 48 + rng.below(len(b) - 49)
        b[i] = rng.choice([0, 1, 2, 0xff, b[i] ^ 1, (b[i] + 1) & 0xff])
    elif k == 7:
        b[0] = rng.choice([0, 2, 4, 255])
    else:
        if len(b) > 5:
            b[5] = rng.choice([0, 1, 2, 3, 4, 5, 6, 7, 255])
    return bytes(b)


def norm_line(l):
    """String TLVs of a Termination message go through String::from_utf8_lossy: compare ASCII strings only"""
    def f(m):
        try:
            raw = bytes.fromhex(m.group(1))
        except ValueError:
            return m.group(0)
        return m.group(0) if all(x < 0x80 for x in raw) else 'S:*'
    return re.sub(r'S:([0-9a-f]+)', f, l) if ' TM ' in l else l


def fields(l):
    p = l.split()
    d = {'_kind': p[2] if len(p) > 2 else ''}
    for x in p[3:]:
        if '=' in x:
            a, b = x.split('=', 1)
            d[a] = b
    return d


def run(ctx):
    d = core.case_dir('C15')
    rng = core.SplitMix(ctx.seed)
    quick = ctx.tier == 'quick'
    # a pool of valid UPDATEs of every family (reference encoder of C01)
    upd_pool = []
    while len(upd_pool) < (60 if quick else 600):
        cfg = {'four': True, 'ap': []}
        c, _ = updenc.gen_content(rng, cfg, 'normal')
        m, _ = updenc.encode(c)
        if len(m) <= 4096:
            upd_pool.append(m)
    # UPDATEs above 4096 octets as well (a monitored session may use extended messages; BMP itself sets no limit)
    n_big = 0
    while n_big < (6 if quick else 40):
        c, _ = updenc.gen_content(rng, {'four': True, 'ap': []}, 'big')
        m, _ = updenc.encode(c)
        if 4096 < len(m) <= 65535:
            upd_pool.append(m)
            n_big += 1
    upd_pool.append(c03.hdr(23, 2) + b'\x00\x00\x00\x00')
    cases = []
    meta = []
    n_valid = 2500 if quick else 60000
    for _ in range(n_valid):
        b, kind, exp = gen_valid(rng, upd_pool)
        cases.append(b)
        meta.append((kind, exp))
        for _ in range(2):
            cases.append(mutate(rng, b))
            meta.append((None, None))
    # Peer Up messages whose OPENs carry capabilities with count / length fields at their extremes: refused or accepted, never a panic
    for _ in range(500 if quick else 15000):
        h, _he = gen_pph(rng)
        la = rng.addr(True) if rng.chance(1, 2) else bytes(12) + rng.addr(False)
        s_, r_ = gen_open(rng, adversarial=rng.chance(1, 2)), gen_open(rng, adversarial=True)
        cases.append(common(3, h + la + struct.pack('>HH', rng.below(65536), rng.below(65536)) + s_ + r_ + enc_tlvs(gen_tlvs(rng))))
        meta.append((None, None))
    for _ in range(600 if quick else 20000):
        n = rng.choice([0, 1, 5, 6, 7, 47, 48, 49, 60, 100])
        b = bytearray(rng.bytes(n))
        if n >= 6 and rng.chance(3, 4):
            b[0] = 3
            struct.pack_into('>I', b, 1, n)
            b[5] = rng.below(7)
            if n >= 7 and rng.chance(3, 4):
                b[6] = rng.below(4)
        cases.append(bytes(b))
        meta.append((None, None))
    path = os.path.join(d, 'cases.txt')
    with open(path, 'w') as f:
        for b in cases:
            f.write('BMP %s\n' % (b.hex() or '-'))
    impl, _ = core.run_tool_sharded(ctx.harness, ['c15', 'obs'], path)
    impl = [l for l in impl if l]
    if ctx.model:
        model, _ = core.run_tool_sharded(ctx.model, ['c15', 'obs'], path)
        model = [norm_line(l) for l in model if l]
        for k, a, b in core.diff_lines(model, [norm_line(l) for l in impl], limit=10):
            ctx.violation('model and implementation disagree on a BMP message', case=(b if b != '<missing>' else a).split(' ', 2)[1][:400],
                          model=a[:1500], impl=b[:1500])
    kinds = {}
    n_acc = 0
    for l, (kind, exp) in zip(impl, meta):
        f = fields(l)
        case = l.split(' ', 2)[1]
        if 'PANIC' in l or 'NONTERM' in l:
            ctx.violation('decoding or an accessor panicked, or an iterator did not terminate, on a BMP message', case=case[:400], impl=l[:1500])
            continue
        if f['_kind'] not in ('ERR',):
            n_acc += 1
            kinds[f['_kind']] = kinds.get(f['_kind'], 0) + 1
            raw = bytes.fromhex(case) if case != '-' else b''
            if f.get('ch') != '3/%d/%d' % (len(raw), raw[5]) or f.get('fmt') != str(len(raw)):
                ctx.violation('the common header accessors do not report the octets', case=case[:400], impl=l[:1500])
            if f['_kind'] == 'RM' and f.get('upd') != f.get('own'):
                ctx.violation('the embedded UPDATE does not decode as it does on its own', case=case[:400], impl=l[:1500])
        if kind is not None:
            if f['_kind'] != kind:
                ctx.violation('a well-formed %s message was not accepted as such' % kind, case=case[:400], impl=l[:1500])
                continue
            for key, val in exp.items():
                if key == 'emb':
                    continue
                if f.get(key) != val:
                    ctx.violation('%s of a well-formed %s message is not what was encoded (expected %s)' % (key, kind, val[:200]),
                                  case=case[:400], impl=l[:1500])
                    break
            if kind == 'RM' and not f.get('upd', '').startswith('OK:%d:' % len(bytes.fromhex(exp['emb']))):
                ctx.violation('the embedded UPDATE of a well-formed Route Monitoring message does not decode', case=case[:400], impl=l[:1500])
    ctx.coverage.update({
        'evaluations': len(impl),
        'distinct_nontrivial': len(set(l.split(' ', 2)[2] for l in impl if not l.endswith(' ERR'))),
        'rule': 'correspondence: every case through model and implementation, the full observation line (kind, common header, per-peer '
                'header, every accessor and iterator of the type) compared; non-trivial = distinct observation lines of accepted messages; '
                'oracle: well-formed messages from the Python encoder must be accepted and report the encoded fields, no PANIC anywhere, '
                'embedded UPDATE = UPDATE on its own',
        'exhaustive': False,
        'input_distribution': {'well_formed': n_valid, 'mutated': 2 * n_valid, 'random': len(cases) - 3 * n_valid,
                               'accepted': n_acc, 'accepted_by_kind': kinds, 'embedded_updates_pool': len(upd_pool)},
    })
    ctx.samples = [l[:400] for l in impl if ' PU ' in l][:1] + [l[:300] for l in impl if ' SR ' in l][:1] + \
                  [l[:300] for l in impl if ' TM ' in l][:1] + [l[:300] for l in impl if ' PD ' in l and 'notif=ff' in l][:1]


def replay(ctx, path):
    run(ctx)
