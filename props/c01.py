"""C01 - UPDATE decoding reports exactly what is on the wire."""
import os
from lib import core, nlrienc, updenc
from lib.core import CheckFailure

GENERATORS = ['attrs', 'enums']
TRUSTED_BASE = [
    'Coq 8.16.1 kernel (coqc); no axioms',
    'hand-written Model/Update.v (UpdateMessage::parse control flow, accessors, iterators, is_eor, NextHop::parse) over the C04/C05/C13 models; generated attribute table (tools/gen_attrs.py); tied by the correspondence run',
    'extraction: ExtrOcamlBasic only; ocaml/c01.ml, harness/src/c01.rs; lib/updenc.py + lib/nlrienc.py reference encoder (generator / oracle only)',
]
ASSUMPTIONS = [
    'the theorems are stated for contents whose total size fits the 16-bit length fields (wf hypotheses); the 4096-octet PDU limit is not enforced by the decoder and is not needed',
]


def gen(ctx):
    rng = core.SplitMix(ctx.seed)
    cases = []
    n = 2500 if ctx.tier == 'quick' else 120000
    for i in range(n):
        cfg = updenc.gen_cfg(rng)
        content, exp = updenc.gen_content(rng, cfg, size=rng.choice(['small', 'normal', 'normal', 'big']))
        msg, sec = updenc.encode(content)
        if len(msg) > 65535:
            continue
        cases.append((cfg, content, exp, sec, msg))
    # End-of-RIB markers and near misses
    for fam in nlrienc.FAMS:
        for variant in range(6):
            cfg = {'four': variant != 5, 'ap': []}
            content = {'wd': [], 'ann': [], 'attrs': [], 'reach': None, 'unreach': (fam, [])}
            exp = {'eor': '%d.%d' % nlrienc.AFISAFI[fam]}
            if variant >= 4:
                # the same marker with the extended-length form of the (3-octet) attribute value
                content['unreach_ext'] = True
            if variant == 1:
                content['ann'] = [nlrienc.gen_value('Ipv4Unicast', rng)]
                content['attrs'] = [(0x40, 1, b'\x00', False), (0x40, 2, b'', False), (0x40, 3, b'\x0a\x00\x00\x01', False)]
                exp = {'eor': '-'}
            elif variant == 2:
                f2 = rng.choice(nlrienc.FAMS)
                content['reach'] = (f2, bytes(updenc.NH_LEN[f2][0]), [nlrienc.gen_value(f2, rng, boundary=(6 if nlrienc.kind(f2) in ('F', 'E') else None))])
                content['attrs'] = [(0x40, 1, b'\x00', False), (0x40, 2, b'', False)]
                exp = {'eor': '-'}
            elif variant == 3:
                content['unreach'] = (fam, [nlrienc.gen_value(fam, rng, boundary=(6 if nlrienc.kind(fam) in ('F', 'E') else None))])
                exp = {'eor': '-'}
            msg, sec = updenc.encode(content)
            cases.append((cfg, content, exp, sec, msg))
    cases.append(({'four': True, 'ap': []}, {'wd': [], 'ann': [], 'attrs': [], 'reach': None, 'unreach': None}, {'eor': '1.1'},
                  {'len': 23, 'wd': 0, 'al': 0, 'triples': []}, updenc.encode({'wd': [], 'ann': [], 'attrs': [], 'reach': None, 'unreach': None})[0]))
    return cases


def fields(line):
    return dict(x.split('=', 1) for x in line.split(' ')[3:] if '=' in x)


def check_case(ctx, idx, case, lines, text):
    cfg, content, exp, sec, msg = case
    by = {}
    for l in lines:
        by[l.split(' ')[2].split('=')[0] if l.split(' ')[2].startswith('parse') else l.split(' ')[2]] = l
    def viol(what):
        ctx.violation(what, case=text[:400], impl=[l[:300] for l in lines])
    if any('PANIC' in l or 'HANG' in l for l in lines):
        return viol('panic / endless iterator on a well-formed UPDATE')
    p = by.get('parse')
    if p is None or 'parse=ok' not in p:
        return viol('a well-formed UPDATE was rejected')
    f = fields(' '.join(['x'] + p.split(' ')[1:]))
    f = dict(x.split('=', 1) for x in p.split(' ')[2:] if '=' in x)
    if int(f['len']) != sec['len'] or int(f['wd']) != sec['wd'] or int(f['al']) != sec['al']:
        return viol('section lengths differ from the encoded ones')
    a = by.get('attrs', '')
    items = a.split(' ', 3)[3] if len(a.split(' ', 3)) > 3 else ''
    items = items[items.index('[') + 1:-1].split(' ') if '[' in items else []
    items = [x for x in items if x]
    got = []
    for it in items:
        q = it.split(':')
        got.append((int(q[1]), int(q[2]), int(q[3])))
    if got != sec['triples']:
        return viol('path attribute sequence (flags, code, length) differs from the encoded one')
    t = dict(x.split('=', 1) for x in by.get('typed', '').split(' ')[3:] if '=' in x)
    for k in ('origin', 'aspath', 'as4path', 'nh', 'med', 'lp', 'atomic', 'agg', 'comm', 'ext', 'v6ext', 'large'):
        if k in exp and t.get(k) != exp[k]:
            return viol('typed attribute value %s differs: expected %s' % (k, exp[k][:80]))
    n = dict(x.split('=', 1) for x in by.get('nlri', '').split(' ')[3:] if '=' in x)
    def lst(vs):
        return '%d[%s]' % (len(vs), ','.join('%d.%d%s~%s' % (nlrienc.AFISAFI[v['fam']] + ('+' if v.get('pid') is not None else '', nlrienc.encode(v).hex())) for v in vs))
    if n.get('convw') != lst(content['wd']) or n.get('conva') != lst(content['ann']):
        return viol('conventional NLRI differ from the encoded ones')
    if content['reach']:
        fam, nh, nl = content['reach']
        ap = updenc.rx(cfg, nlrienc.AFISAFI[fam])
        want = '%d.%d%s:%s' % (nlrienc.AFISAFI[fam] + ('+' if ap else '', lst(nl)))
        if n.get('mpa') != want:
            return viol('MP_REACH NLRI differ from the encoded ones')
        m = dict(x.split('=', 1) for x in by.get('misc', '').split(' ')[3:] if '=' in x)
        if m.get('mpnh') != updenc.nh_display(fam, nh):
            return viol('MP next hop differs from the encoded one')
    elif n.get('mpa') != 'none':
        return viol('MP_REACH reported although absent')
    if content['unreach']:
        fam, nl = content['unreach']
        ap = updenc.rx(cfg, nlrienc.AFISAFI[fam])
        want = '%d.%d%s:%s' % (nlrienc.AFISAFI[fam] + ('+' if ap else '', lst(nl)))
        if n.get('mpw') != want:
            return viol('MP_UNREACH NLRI differ from the encoded ones')
    m = dict(x.split('=', 1) for x in by.get('misc', '').split(' ')[3:] if '=' in x)
    carries = bool(content['wd'] or content['ann'] or (content['reach'] and content['reach'][2]) or (content['unreach'] and content['unreach'][1]))
    if carries and m.get('eor') != '-':
        return viol('a message that carries NLRI is reported as End-of-RIB')
    if 'eor' in exp and m.get('eor') != exp['eor']:
        return viol('End-of-RIB recognition differs: expected %s' % exp['eor'])
    avec = len(content['ann']) + (len(content['reach'][2]) if content['reach'] else 0)
    if not n.get('avec', '').startswith('%d[' % avec):
        return viol('announcements_vec does not hold all announced NLRI')


def run(ctx):
    d = core.case_dir('C01')
    cases = gen(ctx)
    path = os.path.join(d, 'cases.txt')
    texts = []
    with open(path, 'w') as f:
        for i, (cfg, content, exp, sec, msg) in enumerate(cases):
            t = 'UPD %d %s %s' % (i, updenc.cfg_str(cfg), msg.hex())
            texts.append(t)
            f.write(t + '\n')
    impl, _ = core.run_tool_sharded(ctx.harness, ['c01'], path)
    impl = [l for l in impl if l]
    groups = {}
    for l in impl:
        groups.setdefault(int(l.split(' ')[1]), []).append(l)
    for i, case in enumerate(cases):
        check_case(ctx, i, case, groups.get(i, []), texts[i])
        if len(ctx.violations) > 8:
            break
    if ctx.model:
        model, _ = core.run_tool_sharded(ctx.model, ['c01'], path)
        for k, a, b in core.diff_lines(model, impl, limit=5):
            idx = int((a if a != '<missing>' else b).split(' ')[1])
            ctx.violation('model and implementation disagree', case=texts[idx][:400], model=a[:500], impl=b[:500])
    fam_cov = {}
    cfgs = {'four': 0, 'two': 0, 'addpath': 0}
    for cfg, content, exp, sec, msg in cases:
        cfgs['four' if cfg['four'] else 'two'] += 1
        if cfg['ap']:
            cfgs['addpath'] += 1
        for sect in ('reach', 'unreach'):
            if content[sect]:
                k = content[sect][0] + ('+' if updenc.rx(cfg, nlrienc.AFISAFI[content[sect][0]]) else '')
                fam_cov[k] = fam_cov.get(k, 0) + 1
    ctx.coverage.update({
        'evaluations': len(cases),
        'distinct_nontrivial': len(set(texts)),
        'rule': 'abstract UPDATE contents (conventional + MP sections of all 13 families with/without ADD-PATH, random subsets '
                'and orders of the 20 typed attributes and unknown ones, short and extended length encodings, 2-/4-octet '
                'sessions with random ADD-PATH maps, End-of-RIB markers and near misses) through the Python reference encoder; '
                'every accessor observed on the implementation is compared with the encoded content and with the model',
        'input_distribution': {'session': cfgs, 'mp_family_coverage': fam_cov,
                               'sizes': {'max': max(len(c[4]) for c in cases), 'mean': sum(len(c[4]) for c in cases) // len(cases)}},
    })
    ctx.samples = [texts[0][:300]] + [l[:300] for l in groups.get(0, [])[:3]]


def replay(ctx, path):
    run(ctx)
