"""C08 - session FSM follows RFC 4271; UPDATEs reach the application only when Established."""
import os
import struct
from lib import core

GENERATORS = ['fsm', 'caps', 'merge', 'enums']
TRUSTED_BASE = [
    'Coq 8.16.1 kernel (coqc); no axioms',
    'translator tools/gen_fsm.py: every (state, event) arm of Session::handle_event is turned into an action list (each statement recognised '
    'exactly, the OPEN acceptance block by hash); hand-written Model/Fsm.v gives the actions their meaning and mirrors handle_msg / disconnect / '
    'tick error paths (pinned by hash); tied by the correspondence run through the cfg hooks and, black-box, over a loopback TCP stream',
    'Model/RefFsm.v: the RFC 4271 8.2.2 next-state table written independently (the specification of c08_next_state)',
    'extraction: ExtrOcamlBasic only; ocaml/c08.ml, harness/src/c08.rs; the Python RFC table in props/c08.py (oracle only)',
]
ASSUMPTIONS = [
    'timers are modelled by their running flags (C20 covers the timer itself); channel capacity is not modelled (the harness drains both channels after every step)',
]

MARKER = b'\xff' * 16
EVENTS = ['ManualStart', 'ManualStop', 'AutomaticStart', 'ManualStartWithPassiveTcpEstablishment', 'AutomaticStartWithPassiveTcpEstablishment',
          'ConnectRetryTimerExpires', 'HoldTimerExpires', 'KeepaliveTimerExpires', 'DelayOpenTimerExpires', 'TcpCrAcked', 'TcpConnectionConfirmed',
          'TcpConnectionFails', 'BgpOpen', 'BgpHeaderErr', 'BgpOpenMsgErr', 'NotifMsgVerErr', 'NotifMsg', 'KeepaliveMsg', 'UpdateMsg', 'UpdateMsgErr',
          'BgpOpenWithDelayOpenTimerRunning']
STARTS = EVENTS[0:1] + EVENTS[2:5]
PASSIVE = ['ManualStartWithPassiveTcpEstablishment', 'AutomaticStartWithPassiveTcpEstablishment']
TCPOK = ['TcpCrAcked', 'TcpConnectionConfirmed']


def hdr(length, typ):
    return MARKER + struct.pack('>HB', length, typ)


def open_msg(asn, hold, caps):
    pb = b''
    if caps:
        v = b''.join(bytes([c, len(x)]) + x for c, x in caps)
        pb = bytes([2, len(v)]) + v
    body = bytes([4]) + struct.pack('>HH', asn if asn < 65536 else 23456, hold) + b'\x01\x02\x03\x04' + bytes([len(pb)]) + pb
    return hdr(19 + len(body), 1) + body


KEEPALIVE = hdr(19, 4)
UPDATE = hdr(23, 2) + b'\x00\x00\x00\x00'
NOTIF = hdr(21, 3) + bytes([6, 2])


def rfc_next(st, ev, dot, delay_attr, open_ok):
    """RFC 4271 section 8.2.2: the next state"""
    if st == 'Idle':
        if ev in PASSIVE:
            return 'Active'
        if ev in ('ManualStart', 'AutomaticStart'):
            return 'Connect'
        return 'Idle'
    if ev in STARTS:
        return st
    if ev == 'ManualStop':
        return 'Idle'
    if st in ('Connect', 'Active'):
        if ev == 'ConnectRetryTimerExpires':
            return 'Connect'
        if ev == 'DelayOpenTimerExpires':
            return 'OpenSent'
        if ev in TCPOK:
            return st if delay_attr else 'OpenSent'
        if ev == 'TcpConnectionFails':
            return 'Active' if (st == 'Connect' and dot) else 'Idle'
        if ev == 'BgpOpenWithDelayOpenTimerRunning':
            return 'OpenConfirm' if open_ok else 'Idle'
        return 'Idle'
    if st == 'OpenSent':
        if ev in TCPOK:
            return 'OpenSent'
        if ev == 'TcpConnectionFails':
            return 'Active'
        if ev == 'BgpOpen':
            return 'OpenConfirm' if open_ok else 'Idle'
        return 'Idle'
    if st == 'OpenConfirm':
        if ev in TCPOK or ev == 'KeepaliveTimerExpires':
            return 'OpenConfirm'
        if ev == 'KeepaliveMsg':
            return 'Established'
        return 'Idle'
    if st == 'Established':
        if ev in TCPOK or ev in ('KeepaliveTimerExpires', 'KeepaliveMsg', 'UpdateMsg'):
            return 'Established'
        return 'Idle'
    raise ValueError(st)


def rfc_notif(st, ev):
    """the NOTIFICATION RFC 4271 names when leaving OpenSent / OpenConfirm / Established for these events, or None"""
    sub = {'OpenSent': 1, 'OpenConfirm': 2, 'Established': 3}.get(st)
    if sub is None:
        return None
    if ev == 'ManualStop':
        return 'notif:6.2'
    if ev == 'HoldTimerExpires':
        return 'notif:4.0'
    forbidden = {
        'OpenSent': ['ConnectRetryTimerExpires', 'KeepaliveTimerExpires', 'DelayOpenTimerExpires', 'BgpOpenWithDelayOpenTimerRunning', 'NotifMsg',
                     'KeepaliveMsg', 'UpdateMsg', 'UpdateMsgErr'],
        'OpenConfirm': ['ConnectRetryTimerExpires', 'DelayOpenTimerExpires', 'BgpOpenWithDelayOpenTimerRunning', 'UpdateMsg', 'UpdateMsgErr'],
        'Established': ['ConnectRetryTimerExpires', 'DelayOpenTimerExpires', 'BgpOpenWithDelayOpenTimerRunning', 'BgpHeaderErr', 'BgpOpenMsgErr', 'BgpOpen'],
    }[st]
    if ev in forbidden:
        return 'notif:5.%d' % sub
    return None


def gen(ctx, todo_cells):
    rng = core.SplitMix(ctx.seed)
    quick = ctx.tier == 'quick'
    opens = {
        'ok': open_msg(65001, 30, [(65, struct.pack('>I', 65001)), (69, struct.pack('>HBB', 1, 1, 2))]),
        'ok2': open_msg(64513, 200, [(1, b'\x00\x01\x00\x01'), (69, struct.pack('>HBB', 1, 1, 3) + struct.pack('>HBB', 2, 1, 1))]),
        'ok16': open_msg(65003, 3, []),
        'bad': open_msg(65002, 90, [(65, struct.pack('>I', 65002))]),
        'ap-err': open_msg(65005, 90, [(65, struct.pack('>I', 65005)), (69, struct.pack('>HBB', 1, 1, 0))]),
        # the two-octet field and the four-octet capability disagree: the peer's AS is the one in the capability (RFC 6793)
        'ok-cap': open_msg(65002, 90, [(65, struct.pack('>I', 65001))]),
        'bad-cap': open_msg(65001, 90, [(65, struct.pack('>I', 65002))]),
        # a disallowed AS *and* an ADD-PATH capability that does not parse: the AS decides (Bad Peer AS), whatever else is wrong
        # an ADD-PATH capability whose value is not a whole number of 4-octet entries (one entry and two stray octets)
        'ap-len': open_msg(65001, 90, [(65, struct.pack('>I', 65001)), (69, struct.pack('>HBB', 1, 1, 3) + b'\x00\x02')]),
        'bad-aperr': open_msg(65002, 90, [(65, struct.pack('>I', 65002)), (69, struct.pack('>HBB', 1, 1, 3) + struct.pack('>HBB', 2, 1, 0))]),
    }
    cases = []

    def step_of(ev):
        if ev in ('BgpOpen', 'BgpOpenWithDelayOpenTimerRunning'):
            k = rng.choice(['ok', 'ok', 'ok2', 'ok16', 'bad', 'ap-err', 'ap-len', 'ok-cap', 'bad-cap', 'bad-aperr'])
            return 'E:%s:%s' % (ev, opens[k].hex()), ev, k
        return 'e:' + ev, ev, None
    # 1. every history of length <= depth over all 21 events (from Idle), both DelayOpen settings
    depth = 2 if quick else 3
    def rec(prefix, d):
        if d == 0:
            return
        for ev in EVENTS:
            h = prefix + [ev]
            cases.append(('hist', h))
            rec(h, d - 1)
    rec([], depth)
    out = []
    for kind, h in cases:
        for delay in (0, 1):
            steps = [step_of(ev) for ev in h]
            out.append({'delay': delay, 'hold': 90, 'ap': rng.choice(['-', '1.1', '1.1,2.1']), 'steps': steps})
    # 2. from every state reached by a canonical prefix: every event (so that all 126 cells are hit)
    prefixes = {
        'Idle': [], 'Active': ['e:ManualStartWithPassiveTcpEstablishment'],
        'OpenSent': ['e:ManualStartWithPassiveTcpEstablishment', 'e:TcpConnectionConfirmed'],
        'OpenConfirm': ['e:ManualStartWithPassiveTcpEstablishment', 'e:TcpConnectionConfirmed', 'm:' + opens['ok'].hex()],
        'Established': ['e:ManualStartWithPassiveTcpEstablishment', 'e:TcpConnectionConfirmed', 'm:' + opens['ok'].hex(), 'm:' + KEEPALIVE.hex()],
        'Connect': ['e:ManualStartWithPassiveTcpEstablishment', 'c'],
    }
    for st, pre in prefixes.items():
        for ev in EVENTS:
            for delay in (0, 1):
                for rep in range(2):
                    s, e, k = step_of(ev)
                    out.append({'delay': delay, 'hold': 90, 'ap': '1.1,2.1', 'pre': pre, 'steps': [(s, e, k)], 'from': st})
    # 3. message-driven, through handle_msg and (black box) through tick over the TCP stream
    msgs = {'open': None, 'keepalive': KEEPALIVE, 'update': UPDATE, 'notification': NOTIF}
    notifs = {'n2.1': hdr(23, 3) + bytes([2, 1, 0, 4]), 'n2.2': hdr(21, 3) + bytes([2, 2]), 'n4.0': hdr(21, 3) + bytes([4, 0]),
              'n6.4d': hdr(24, 3) + bytes([6, 4, 1, 2, 3])}
    for st, pre in prefixes.items():
        for mk in ('open', 'keepalive', 'update', 'notification'):
            for via in ('m', 't'):
                if via == 't' and st == 'Connect':
                    continue      # no connection to read from
                for delay in (0, 1):
                    variants = ['ok', 'ok2', 'bad', 'ap-err', 'ap-len', 'ok16', 'ok-cap', 'bad-cap', 'bad-aperr'] if mk == 'open' else ([None, 'n2.1', 'n2.2', 'n4.0', 'n6.4d'] if mk == 'notification' else [None])
                    for ok in variants:
                        b = opens[ok] if mk == 'open' else (notifs[ok] if ok else msgs[mk])
                        out.append({'delay': delay, 'hold': rng.choice([90, 3, 0]), 'ap': '1.1,2.1', 'pre': pre,
                                    'steps': [('%s:%s' % (via, b.hex()), 'msg:' + mk, ok)], 'from': st, 'via': via})
    # 3b. bursts: the same UPDATE n times back to back, more than the queue towards the application holds (64 in the harness; the
    #     application takes a message only when the session waits for it): in Established every one of them arrives, in order
    for st, pre in prefixes.items():
        for n in ((1, 64, 65, 200) if quick else (1, 2, 63, 64, 65, 66, 128, 129, 200, 1000)):
            out.append({'delay': 0, 'hold': 90, 'ap': '1.1,2.1', 'pre': pre, 'steps': [('U:%d:%s' % (n, UPDATE.hex()), 'burst', n)], 'from': st})
    # 3c. the second time round: the session is established, loses its connection, is started again and gets a new socket
    #     (Session::attach_stream) on which the peer negotiates something else; an UPDATE in the encoding of the *new* negotiation
    #     (with / without path identifiers) is then delivered like any other
    upd_plain = hdr(23 + 4, 2) + b'\x00\x00\x00\x00' + b'\x18\x0a\x00\x01'
    upd_pid = hdr(23 + 8, 2) + b'\x00\x00\x00\x00' + b'\x00\x00\x00\x07\x18\x0a\x00\x01'
    ap_open = open_msg(65001, 30, [(65, struct.pack('>I', 65001)), (69, struct.pack('>HBB', 1, 1, 3))])
    no_ap_open = open_msg(65001, 30, [(65, struct.pack('>I', 65001))])
    for first, second, upd in ((ap_open, no_ap_open, upd_plain), (no_ap_open, ap_open, upd_pid), (ap_open, ap_open, upd_pid), (no_ap_open, no_ap_open, upd_plain)):
        for lost in (['e:TcpConnectionFails'], ['e:ManualStop']):
            # (through handle_msg only: the octets the `A` step wrote to make the new socket readable are still in it, a tick()
            # would read that OPEN a second time)
            for via in ('m',):
                steps = [('e:ManualStartWithPassiveTcpEstablishment', 'ManualStartWithPassiveTcpEstablishment', None),
                         ('e:TcpConnectionConfirmed', 'TcpConnectionConfirmed', None), ('m:' + first.hex(), 'msg:open', 'ok'),
                         ('m:' + KEEPALIVE.hex(), 'msg:keepalive', None)]
                steps += [(x, x[2:], None) for x in lost]
                steps += [('e:ManualStartWithPassiveTcpEstablishment', 'ManualStartWithPassiveTcpEstablishment', None),
                          ('A:' + second.hex(), 'TcpConnectionConfirmed', None), ('m:' + second.hex(), 'msg:open', 'ok'),
                          ('m:' + KEEPALIVE.hex(), 'msg:keepalive', None), ('%s:%s' % (via, upd.hex()), 'msg:update', None)]
                out.append({'delay': 0, 'hold': 90, 'ap': '1.1,2.1', 'steps': steps})
    # 4. long random histories
    for _ in range(150 if quick else 5000):
        steps = []
        for _ in range(rng.choice([10, 30, 80])):
            r = rng.below(10)
            if r < 6:
                steps.append(step_of(rng.choice(EVENTS)))
            elif r < 9:
                mk = rng.choice(['open', 'keepalive', 'update', 'notification'])
                ok = rng.choice(['ok', 'ok2', 'bad', 'ok16', 'ok-cap', 'bad-cap', 'bad-aperr']) if mk == 'open' else None
                b = opens[ok] if mk == 'open' else msgs[mk]
                steps.append(('m:' + b.hex(), 'msg:' + mk, ok))
            else:
                steps.append(('e:ManualStartWithPassiveTcpEstablishment', 'ManualStartWithPassiveTcpEstablishment', None))
        out.append({'delay': rng.below(2), 'hold': 90, 'ap': rng.choice(['-', '1.1']), 'steps': steps})
    return out


def run(ctx):
    d = core.case_dir('C08')
    # the todo!() cells of the known finding K4 are the ones listed in known_findings.json, not whatever the source says now:
    # a todo!() cell that is not listed is a violation, and the list is available even when the translator fails
    todo = set()
    for kf in ctx.known:
        if kf.get('id') == 'K4':
            todo = set(kf.get('cells', []))
    now = set(ctx.gen_info.get('fsm', {}).get('todo_cells', todo))
    for cell in sorted(now - todo):
        ctx.violation('a todo!() cell that is not part of the known finding K4: %s' % cell, case=cell)
    cases = gen(ctx, todo | now)
    lines = []
    for i, c in enumerate(cases):
        steps = list(c.get('pre', [])) + [s for s, _, _ in c['steps']]
        lines.append('FSM %d %d %d %s %s' % (i, c['delay'], c['hold'], c['ap'], ';'.join(steps)))
    path = os.path.join(d, 'cases.txt')
    with open(path, 'w') as f:
        f.write('\n'.join(lines) + '\n')
    impl, _ = core.run_tool(ctx.harness, ['c08', path], timeout=3000)
    impl = [l for l in impl if l]
    by = {int(l.split(' ')[1]): l for l in impl}
    cells = set()
    stats = {'steps': 0, 'k4': 0, 'k6': 0, 'established_reached': 0}
    for i, c in enumerate(cases):
        if len(ctx.violations) > 8:
            break
        l = by.get(i)
        if l is None:
            ctx.violation('no result from the implementation harness', case=lines[i][:300])
            continue
        fields = l.split(' ', 2)[2].split(' ; ') if l.count(' ') >= 2 else []
        npre = len(c.get('pre', []))
        st = 'Idle'
        dot = False
        conn = True
        for j, fld in enumerate(fields):
            snap, out, app, res = fld.split('|')
            parts = snap.split(',')
            new_st, timers, new_conn = parts[0], parts[2], parts[3] == '1'
            if j >= npre:
                step, ev, ok = c['steps'][j - npre]
                stats['steps'] += 1

                def viol(what, **kw):
                    ctx.violation(what, case=lines[i][:700], step='%d: %s in %s' % (j, ev, st), impl=fld[:200], **kw)
                if ev == 'burst':
                    cnt = app.split('+').count('update')
                    want = rfc_next(st, 'UpdateMsg', dot, bool(c['delay']), False)
                    cells.add((st, 'UpdateMsg'))
                    stats['bursts'] = stats.get('bursts', 0) + 1
                    if res == 'PANIC':
                        viol('the session panicked')
                    elif new_st != want:
                        viol('next state is %s, RFC 4271 prescribes %s' % (new_st, want))
                    elif cnt != (ok if st == 'Established' else 0):
                        viol('a burst of %d UPDATEs in %s: %d reached the application' % (ok, st, cnt))
                    break
                if ev.startswith('msg:'):
                    mk = ev[4:]
                    via = step[0]
                    evn = {'open': 'BgpOpenWithDelayOpenTimerRunning' if dot else 'BgpOpen', 'keepalive': 'KeepaliveMsg', 'update': 'UpdateMsg',
                           'notification': 'NotifMsg'}[mk]
                else:
                    evn, via = ev, 'e'
                cells.add((st, evn))
                if res == 'PANIC':
                    if '%s/%s' % (st, evn) in todo and via == 'e':
                        stats['k4'] += 1
                        ctx.known_hit('K4', 'FSM %d: (%s, %s) is todo!()' % (i, st, evn))
                    elif evn in ('BgpOpen', 'BgpOpenWithDelayOpenTimerRunning') and not conn and via in ('e', 'm'):
                        pass   # an OPEN event injected without a connection: not a reachable situation (the OPEN came over it)
                    else:
                        viol('the session panicked')
                    break
                open_ok = ok in ('ok', 'ok2', 'ok16', 'ok-cap')
                want = rfc_next(st, evn, dot, bool(c['delay']), open_ok)
                if ok in ('ap-err', 'ap-len') and st in ('OpenSent', 'Connect', 'Active') and evn.startswith('BgpOpen') and (st == 'OpenSent') == (evn == 'BgpOpen'):
                    # K6: no OPEN-message-error handling for an ADD-PATH capability that does not parse: the step fails and the
                    # state stays (through tick: Connect) - accepting such an OPEN is not K6
                    if new_st in ('OpenConfirm', 'Established'):
                        viol('an OPEN whose ADD-PATH capability does not parse was accepted')
                        break
                    if new_st != 'Idle':
                        stats['k6'] += 1
                        ctx.known_hit('K6', 'FSM %d: OPEN with an unparsable ADD-PATH capability in %s: state %s, out [%s]' % (i, st, new_st, out))
                elif via == 't' and res == 'err' and new_st == 'Connect':
                    stats['k6'] += 1
                    ctx.known_hit('K6', 'FSM %d: tick() after a failed %s in %s ends in Connect (RFC: %s)' % (i, evn, st, want))
                elif new_st != want:
                    viol('next state is %s, RFC 4271 prescribes %s' % (new_st, want))
                    break
                else:
                    nt = rfc_notif(st, evn)
                    if nt is not None and want == 'Idle':
                        if nt not in out.split('+'):
                            viol('leaving %s on %s must send %s' % (st, evn, nt), out=out)
                            break
                        if new_conn:
                            viol('leaving %s on %s must release the connection' % (st, evn))
                            break
                    if new_st == 'Established' and st != 'Established':
                        stats['established_reached'] += 1
                        if not (st == 'OpenConfirm' and evn == 'KeepaliveMsg'):
                            viol('Established entered other than by a KEEPALIVE in OpenConfirm')
                            break
                    if new_st == 'OpenConfirm' and st != 'OpenConfirm' and not (evn.startswith('BgpOpen') and open_ok):
                        viol('OpenConfirm entered without an accepted OPEN from an allowed AS')
                        break
                    if ev == 'msg:update':
                        delivered = 'update' in app.split('+')
                        if delivered != (st == 'Established'):
                            viol('an UPDATE is handed to the application iff the session is Established (state %s, delivered %s)' % (st, delivered))
                            break
            st, dot, conn = new_st, timers[3] == '1', new_conn
    if ctx.model:
        model, _ = core.run_tool(ctx.model, ['c08', path], timeout=3000)
        for k, a, b in core.diff_lines(model, impl, limit=5):
            idx = int((a if a != '<missing>' else b).split(' ')[1])
            af, bf = a.split(' ; '), b.split(' ; ')
            j = next((j for j in range(min(len(af), len(bf))) if af[j] != bf[j]), min(len(af), len(bf)))
            ctx.violation('model and implementation disagree at step %d' % j, case=lines[idx][:700],
                          model=(af[j] if j < len(af) else '<none>')[:300], impl=(bf[j] if j < len(bf) else '<none>')[:300])
    ctx.coverage.update({
        'evaluations': len(lines),
        'distinct_nontrivial': len(set(lines)),
        'rule': 'every event history up to the depth bound over the 21 event kinds (both DelayOpen settings, OPENs from allowed / disallowed ASes, '
                'with / without the four-octet and ADD-PATH capabilities, one with an unparsable ADD-PATH capability); every (state, event) cell '
                'from a canonical prefix; message-driven steps through handle_msg and black box over a loopback TCP stream through tick(); long '
                'random histories; state / NOTIFICATION / connection / delivery judged against a Python copy of the RFC 4271 table; plus '
                'model = implementation after every step',
        'input_distribution': {'cells_hit': len(cells), 'of': 126, **stats},
    })
    ctx.samples = [lines[0][:200], by.get(0, '')[:300]]


def replay(ctx, path):
    run(ctx)
