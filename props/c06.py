"""C06 - UpdateBuilder emits well-formed, size-bounded PDUs that conserve its input."""
import os
import struct
from lib import core, nlrienc, updenc
from lib.core import CheckFailure

GENERATORS = ['builder', 'attrs', 'enums']
TRUSTED_BASE = [
    'Coq 8.16.1 kernel (coqc); no axioms',
    'hand-written Model/Builder.v (take_message / into_messages / PduIterator / into_message / finish, MP builders) over the '
    'C04/C05 models and the C01 decoder model; constants MAX_PDU, split threshold and the fixed part of `limit` generated from '
    'update_builder.rs (tools/gen_builder.py), the mirrored function bodies pinned by hash; tied by the correspondence run',
    'extraction: ExtrOcamlBasic only; ocaml/c06.ml, harness/src/c06.rs; lib/nlrienc.py (generator) and the Python message '
    'splitter in props/c06.py (oracle only)',
]
ASSUMPTIONS = [
    'attributes and NLRI handed to the builder are well-formed values (wf_attr / wf_nlri: what the typed constructors and parsers '
    'of the crate can produce); usize overflow of the length sums is not modelled (it needs more than 2^63 octets of input)',
]

MAX = 4096


def nlri_sized(fam, ap, size, rng):
    """an NLRI of family `fam` whose encoding has exactly `size` octets, or None"""
    k = nlrienc.kind(fam)
    v6 = nlrienc.is_v6(fam)
    pid = rng.below(1 << 32) if ap else None
    body = size - (4 if ap else 0)
    if k == 'P':
        w = 16 if v6 else 4
        if not (1 <= body <= 1 + w):
            return None
        nb = body - 1
        plen = 0 if nb == 0 else 8 * nb - rng.below(8)
        a = nlrienc.mask(rng.below(1 << (8 * w)), plen, v6)
        return {'fam': fam, 'pid': pid, 'plen': plen, 'addr': a}
    if k == 'F':
        n = body - 1 if body - 1 < 240 else body - 2
        if n < 0 or (body - 1 >= 240 and n < 240) or n > 4095:
            return None
        if not v6 and nlrienc.split34(n) is None:
            return None
        return {'fam': fam, 'pid': pid, 'raw': bytes(rng.below(256) for _ in range(n)) if v6 else nlrienc.flow_v4_body(n, rng)}
    if k == 'E':
        n = body - 2
        if not (0 <= n <= 255):
            return None
        return {'fam': fam, 'pid': pid, 'type': rng.choice([1, 2, 3, 4, 5, 9]), 'raw': bytes(rng.below(256) for _ in range(n))}
    return None


def fill(fam, ap, target, rng, maxn=6000):
    """NLRI (as bytes) whose sizes sum to `target` where the family allows it, else just below"""
    out = []
    total = 0
    while total < target and len(out) < maxn:
        room = target - total
        v = nlrienc.gen_value(fam, rng, rng.below(1 << 32) if ap else None,
                              boundary=(rng.choice([0, 3, 6, 7, 12, 30, 100, 100, 238, 239, 240, 240, 241, 254, 255]) if nlrienc.kind(fam) in ('F', 'E') else None))
        b = nlrienc.encode(v)
        if len(b) > room:
            x = nlri_sized(fam, ap, room, rng)
            if x is None:
                break
            b = nlrienc.encode(x)
            assert len(b) == room, (fam, ap, room, len(b))
        out.append(b)
        total += len(b)
    return out


def gen_attrs(rng, target):
    """canonical attribute TLVs (what compose() emits for the owned values), sorted by code, total size as close to `target`
    as the shapes allow; returns list of (code, tlv bytes)"""
    attrs = {}
    if target <= 0:
        return []
    attrs[1] = updenc.tlv(0x40, 1, bytes([rng.below(3)]))
    n = rng.below(6)
    attrs[2] = updenc.tlv(0x40, 2, (bytes([2, n]) + b''.join(struct.pack('>I', rng.choice([1, 65000, 4200000000])) for _ in range(n))) if n else b'')
    if target > 1400 and rng.chance(1, 3):
        # a path of more than 255 distinct ASNs: several AS_SEQUENCE segments, in the segmentation compose() gives it (the
        # remainder first, then segments of 255)
        tot = rng.choice([n for n in (256, 257, 300, 510, 511, 600) if 4 * n + 12 < target - 40])
        asns = [64512 + i for i in range(tot)]
        cut = tot % 255
        segs = ([asns[:cut]] if cut else []) + [asns[i:i + 255] for i in range(cut, tot, 255)]
        attrs[2] = updenc.tlv(0x40, 2, b''.join(bytes([2, len(g)]) + b''.join(struct.pack('>I', a) for a in g) for g in segs))
    if rng.chance(1, 2):
        attrs[3] = updenc.tlv(0x40, 3, bytes(rng.below(256) for _ in range(4)))
    if rng.chance(1, 2):
        attrs[4] = updenc.tlv(0x80, 4, struct.pack('>I', rng.below(1 << 32)))
    if rng.chance(1, 2):
        attrs[5] = updenc.tlv(0x40, 5, struct.pack('>I', rng.below(1 << 32)))
    if rng.chance(1, 3):
        attrs[32] = updenc.tlv(0xc0, 32, bytes(rng.below(256) for _ in range(12 * rng.below(4))))
    # the rarer recognised types, each with the flags RFC 4271 / 4360 / 5701 / 4456 / 9234 give it (the oracle's own table)
    r = lambda n: bytes(rng.below(256) for _ in range(n))
    for code, val in ((6, lambda: b''), (7, lambda: r(8)), (9, lambda: r(4)), (10, lambda: r(4 * rng.below(4))),
                      (16, lambda: r(8 * rng.below(4))), (25, lambda: r(20 * rng.below(3))), (35, lambda: r(4)),
                      (20, lambda: r(4)), (21, lambda: bytes([rng.below(256)]) + r(4))):
        if rng.chance(1, 6):
            attrs[code] = updenc.tlv(updenc.CANON[code], code, val())
    cur = sum(len(v) for v in attrs.values())
    if cur > target:
        # drop until it fits
        for c in sorted(attrs, reverse=True):
            if cur <= target:
                break
            cur -= len(attrs[c]); del attrs[c]
    room = target - cur
    # COMMUNITIES for the bulk, an unknown transitive attribute for the exact remainder
    if room >= 7:
        n = (room - 4) // 4
        if rng.chance(1, 2):
            n = min(n, 60)
        v = bytes(rng.below(256) for _ in range(4 * n))
        t = updenc.tlv(0xc0, 8, v)
        if len(t) <= room:
            attrs[8] = t
            room -= len(t)
    if room >= 3:
        ln = room - 3 if room - 3 <= 255 else room - 4
        if ln > 255 or room - 3 <= 255:
            attrs[200] = updenc.tlv(0xe0, 200, bytes(rng.below(256) for _ in range(ln)))
    return sorted(attrs.items())


NH_FORMS = [('U', 4), ('U', 16), ('M', 4), ('M', 16), ('L', 32), ('V', 12), ('V', 24), ('E', 0)]
DEFAULT_NH = {'Ipv4Unicast': 4, 'Ipv4Multicast': 4, 'Ipv4MplsUnicast': 4, 'Ipv4RouteTarget': 4, 'L2VpnVpls': 4, 'L2VpnEvpn': 4,
              'Ipv6Unicast': 16, 'Ipv6Multicast': 16, 'Ipv6MplsUnicast': 16, 'Ipv4MplsVpnUnicast': 12, 'Ipv6MplsVpnUnicast': 24,
              'Ipv4FlowSpec': 0, 'Ipv6FlowSpec': 0}


def gen_case(rng, tier):
    fam = rng.choice(nlrienc.FAMS)
    ap = rng.chance(1, 3)
    cfg = updenc.gen_cfg(rng)
    shape = rng.choice(['small', 'small', 'ann-limit', 'ann-limit', 'ann-multi', 'wd-threshold', 'wd-multi', 'mixed', 'mixed',
                        'attrs-big', 'total-edge', 'many-tiny', 'nh-only', 'single-huge'])
    nh = None
    if rng.chance(1, 2) or shape == 'nh-only':
        kind, ln = rng.choice(NH_FORMS)
        nh = (kind, bytes(rng.below(256) for _ in range(ln)))
    nh_bad = rng.chance(1, 25)
    nhl = 1 + (len(nh[1]) if nh else DEFAULT_NH[fam])
    atarget = rng.choice([0, 0, 20, 60, 300, 1000])
    if shape == 'attrs-big':
        atarget = rng.choice([4096 - 31 - nhl + d for d in (-40, -6, -5, -4, -1, 0, 1, 2, 30)] + [3900, 4060, 4073, 4200])
    attrs = gen_attrs(rng, atarget)
    alen = sum(len(t) for _, t in attrs)
    limit = MAX - 31 - nhl - alen
    ann, wd = [], []
    if shape == 'small':
        ann = fill(fam, ap, rng.choice([0, 10, 60, 300]), rng)
        wd = fill(fam, ap, rng.choice([0, 0, 10, 200]), rng)
    elif shape == 'ann-limit' and limit > 0:
        ann = fill(fam, ap, limit + rng.choice([-3, -2, -1, 0, 1, 2, 3, 4, 5]), rng)
    elif shape == 'ann-multi' and limit > 0:
        ann = fill(fam, ap, rng.choice([2, 3]) * limit + rng.choice([-2, -1, 0, 1, 2, 40]), rng)
    elif shape == 'wd-threshold':
        wd = fill(fam, ap, 4000 + rng.choice([-3, -1, 0, 1, 2, 40, 60, 66, 67, 68, 69, 70, 80]), rng)
    elif shape == 'wd-multi':
        wd = fill(fam, ap, rng.choice([8000, 8003, 12001, 4100]), rng)
    elif shape == 'mixed':
        wd = fill(fam, ap, rng.choice([5, 100, 1000, 3990, 4001, 4100, 9000]), rng)
        ann = fill(fam, ap, rng.choice([5, 100, max(limit, 1) - 1, max(limit, 1) + 1, 6000]), rng)
    elif shape == 'attrs-big':
        ann = fill(fam, ap, rng.choice([1, 5, 30, 200]), rng)
        if rng.chance(1, 3):
            wd = fill(fam, ap, rng.choice([5, 100]), rng)
    elif shape == 'total-edge':
        # everything in one PDU: 23 + attrs + MP_REACH(hdr 3|4 + 4 + nh + ann) + MP_UNREACH(hdr + 3 + wd) around 4096
        w = rng.choice([0, 0, 50, 700])
        wd = fill(fam, ap, w, rng)
        wl = sum(len(x) for x in wd)
        fixed = 23 + alen + (4 + 4 + nhl) + ((3 if wl + 3 <= 255 else 4) + 3 + wl if wd else 0)
        ann = fill(fam, ap, MAX - fixed + rng.choice([-2, -1, 0, 1, 2]), rng)
    elif shape == 'many-tiny':
        n = rng.choice([2047, 2048, 2049, 2050, 3000])
        if nlrienc.kind(fam) == 'P' and not ap:
            ann = [b'\x00'] * n
        else:
            ann = fill(fam, ap, 5000, rng)
    elif shape == 'single-huge' and fam.endswith('FlowSpec'):
        for sz in [rng.choice([3990, 4010, 4050, 4066, 4080])] * rng.choice([1, 2]):
            x = nlri_sized(fam, ap, sz, rng)
            if x:
                (wd if rng.chance(1, 2) else ann).append(nlrienc.encode(x))
    ops = []
    if attrs:
        ops.append('T:' + b''.join(t for _, t in attrs).hex())
    seq = [('A', b) for b in ann] + [('W', b) for b in wd]
    if rng.chance(1, 2):
        # interleave
        seq = []
        ia = iw = 0
        while ia < len(ann) or iw < len(wd):
            if iw >= len(wd) or (ia < len(ann) and rng.chance(1, 2)):
                seq.append(('A', ann[ia])); ia += 1
            else:
                seq.append(('W', wd[iw])); iw += 1
    nh_pos = rng.below(len(seq) + 1)
    for i, (k, b) in enumerate(seq):
        if nh is not None and i == nh_pos:
            ops.append('N:%s:%s' % (nh[0], nh[1].hex() or '-'))
        ops.append('%s:%s' % (k, b.hex()))
    if nh is not None and nh_pos >= len(seq):
        ops.append('N:%s:%s' % (nh[0], nh[1].hex() or '-'))
    if nh is not None and ((nh[0] == 'U' and len(nh[1]) == 16) or nh[0] == 'L') and rng.chance(1, 2):
        # the link-local part of an IPv6 next hop set on its own, once or twice, right behind the next hop: the global part stays
        k = next(i for i, o in enumerate(ops) if o.startswith('N:'))
        lls = [bytes([0xfe, 0x80] + [rng.below(256) for _ in range(14)]) for _ in range(rng.choice([1, 2, 2]))]
        for j, ll in enumerate(lls):
            ops.insert(k + 1 + j, 'LL:' + ll.hex())
        nh = ('L', nh[1][:16] + lls[-1])
    if nh_bad:
        ops.append('N:X:-')
    if rng.chance(1, 3):
        # the bulk entry points: runs of announcements / withdrawals handed over in one call, and calls with no item at all
        grouped = []
        for op in ops:
            k = op[0]
            if k in 'AW' and op[1] == ':' and grouped and grouped[-1][0] == k and rng.chance(3, 4):
                grouped[-1][1].append(op[2:])
            elif k in 'AW' and op[1] == ':':
                grouped.append((k, [op[2:]]))
            else:
                grouped.append((None, op))
        ops = []
        for k, v in grouped:
            if k is None:
                ops.append(v)
            elif len(v) == 1 and rng.chance(1, 2):
                ops.append('%s:%s' % (k, v[0]))
            else:
                ops.append('%s:%s' % ('AI' if k == 'A' else rng.choice(['WI', 'WV']), ','.join(v)))
        for _ in range(rng.choice([0, 1, 1, 2])):
            ops.insert(rng.below(len(ops) + 1), rng.choice(['AI:-', 'WI:-', 'WV:-']))
    mode = rng.choice(['M', 'M', 'M', 'I', 'S', 'K'])
    return {'fam': fam, 'ap': ap, 'cfg': cfg, 'mode': mode, 'ops': ops, 'ann': ann, 'wd': wd, 'attrs': attrs, 'nh': nh,
            'nh_bad': nh_bad, 'shape': shape}


def case_text(i, c):
    return 'BLD %d %s %s %d %s %s' % (i, updenc.cfg_str(c['cfg']), c['fam'], 1 if c['ap'] else 0, c['mode'], ';'.join(c['ops']) or '-')


# ---- independent message splitter (oracle) ----
def split_msg(m):
    """-> dict(reach=(fam, nh, nlri bytes)|None, unreach=(fam, nlri bytes)|None, attrs=bytes of the other TLVs) or a string
    describing why the message is malformed"""
    if len(m) < 23 or m[:16] != b'\xff' * 16:
        return 'marker/short'
    if len(m) > MAX:
        return 'message of %d octets exceeds 4096' % len(m)
    ln, typ = struct.unpack('>HB', m[16:19])
    if ln != len(m):
        return 'header length %d but %d octets' % (ln, len(m))
    if typ != 2:
        return 'type'
    wl = struct.unpack('>H', m[19:21])[0]
    if 21 + wl + 2 > len(m):
        return 'withdrawn routes length beyond the message'
    al = struct.unpack('>H', m[21 + wl:23 + wl])[0]
    if 23 + wl + al != len(m):
        return 'attribute length %d does not reach the end (%d octets, withdrawn %d)' % (al, len(m), wl)
    r = {'reach': None, 'unreach': None, 'attrs': b'', 'wl': wl}
    p = 23 + wl
    end = len(m)
    while p < end:
        if p + 3 > end:
            return 'truncated attribute header'
        fl, code = m[p], m[p + 1]
        if fl & 0x10:
            if p + 4 > end:
                return 'truncated attribute header'
            vl = struct.unpack('>H', m[p + 2:p + 4])[0]; h = 4
        else:
            vl = m[p + 2]; h = 3
        if p + h + vl > end:
            return 'attribute %d overruns the section' % code
        v = m[p + h:p + h + vl]
        if (vl > 255) != bool(fl & 0x10):
            return 'attribute %d: extended-length flag does not match its length' % code
        if code == 14:
            if len(v) < 5 or 4 + v[3] + 1 > len(v):
                return 'MP_REACH too short'
            r['reach'] = (struct.unpack('>HB', v[:3]), v[4:4 + v[3]], v[4 + v[3] + 1:])
            if fl & 0xef != 0x80:
                return 'MP_REACH flags'
        elif code == 15:
            if len(v) < 3:
                return 'MP_UNREACH too short'
            r['unreach'] = (struct.unpack('>HB', v[:3]), v[3:])
            if fl & 0xef != 0x80:
                return 'MP_UNREACH flags'
        else:
            r['attrs'] += m[p:p + h + vl]
        p += h + vl
    return r


def oracle(ctx, i, c, line, text):
    """the property itself, judged on the implementation's output alone"""
    def viol(what):
        ctx.violation(what, case=text[:600], impl=line[:400], shape=c['shape'])
    body = line.split(' ', 2)[2] if line.count(' ') >= 2 else ''
    if body.startswith('PANIC') or 'PANIC' in body.split(' ')[0:1]:
        return viol('the builder panicked')
    if 'HANG' in body:
        return viol('producing messages does not terminate (more results than input items + 4)')
    if body.startswith('PREP-PANIC'):
        return viol('filling the builder panicked')
    afisafi = nlrienc.AFISAFI[c['fam']]
    exp_attrs = b''.join(t for _, t in c['attrs'])
    exp_nh = c['nh'][1] if c['nh'] else bytes(DEFAULT_NH[c['fam']])
    toks = body.split(' ')
    msgs = []
    errs = []
    if c['mode'] == 'M':
        if toks[0] == 'ok':
            msgs = [bytes.fromhex(h) for h in toks[2:] if not h.startswith('nh-err')]
        else:
            errs.append(toks[0])
    elif c['mode'] == 'I':
        for t in toks[1:]:
            if t.startswith('ok:'):
                msgs.append(bytes.fromhex(t[3:]))
            elif t.startswith('err:'):
                errs.append(t)
    else:
        if toks[0].startswith('ok:'):
            msgs.append(bytes.fromhex(toks[0][3:]))
        else:
            errs.append(toks[0])
    if c['nh_bad'] and 'nh-err:Illegal' not in body:
        return viol('a placeholder next hop was accepted')
    ra = b''
    rw = b''
    for m in msgs:
        s = split_msg(m)
        if isinstance(s, str):
            return viol('malformed message produced: ' + s)
        if s['wl'] != 0:
            return viol('conventional withdrawals in a builder message')
        if s['reach']:
            f, nh, nl = s['reach']
            if f != afisafi:
                return viol('MP_REACH of another family')
            if not nl:
                return viol('MP_REACH without NLRI')
            if nh != exp_nh:
                return viol('a message with announcements does not carry the next hop')
            if s['attrs'] != exp_attrs:
                return viol('a message with announcements does not carry the full attribute set')
            ra += nl
        if s['unreach']:
            f, nl = s['unreach']
            if f != afisafi:
                return viol('MP_UNREACH of another family')
            rw += nl
        if not s['reach'] and not s['unreach'] and not s['attrs'] and (c['ann'] or c['wd'] or c['attrs'] or c['nh']):
            return viol('an empty message although the input was not empty')
        if s['unreach'] and not s['unreach'][1] and (c['ann'] or c['wd'] or c['attrs'] or c['nh']):
            return viol('an empty MP_UNREACH (End-of-RIB marker) although the input was not empty')
    complete = (c['mode'] in ('M',) and not errs) or (c['mode'] == 'I' and not errs) or (c['mode'] == 'S' and not errs)
    if complete:
        if ra != b''.join(c['ann']):
            return viol('announced NLRI over the produced messages differ from the input (each once, in order)')
        if rw != b''.join(c['wd']):
            return viol('withdrawn NLRI over the produced messages differ from the input (each once, in order)')
    else:
        # whatever was produced is a prefix of the input
        if not b''.join(c['ann']).startswith(ra) and c['mode'] != 'I':
            return viol('announced NLRI produced before the error are not a prefix of the input')
        if not b''.join(c['wd']).startswith(rw) and c['mode'] != 'I':
            return viol('withdrawn NLRI produced before the error are not a prefix of the input')
    if errs and c['mode'] in ('M', 'I'):
        # an error is justified only if the input cannot be represented: a next hop without announcements,
        # or some single NLRI that does not fit next to the attributes
        alen = len(exp_attrs)
        nhl = 1 + len(exp_nh)
        big_a = max([len(x) for x in c['ann']] or [0])
        big_w = max([len(x) for x in c['wd']] or [0])
        representable = (23 + alen + 4 + 4 + nhl + big_a <= MAX if c['ann'] else True) and (23 + 4 + 3 + big_w <= MAX) and \
                        (23 + alen <= MAX) and not (c['nh'] is not None and not c['ann'])
        if representable:
            return viol('the builder reported %s for an input that fits the limits' % errs[0])


def run(ctx):
    d = core.case_dir('C06')
    rng = core.SplitMix(ctx.seed)
    n = 700 if ctx.tier == 'quick' else 30000
    cases = [gen_case(rng, ctx.tier) for _ in range(n)]
    path = os.path.join(d, 'cases.txt')
    texts = [case_text(i, c) for i, c in enumerate(cases)]
    with open(path, 'w') as f:
        f.write('\n'.join(texts) + '\n')
    impl, _ = core.run_tool_sharded(ctx.harness, ['c06'], path)
    impl = [l for l in impl if l]
    by = {int(l.split(' ')[1]): l for l in impl}
    for i, c in enumerate(cases):
        if i not in by:
            ctx.violation('no result from the implementation harness', case=texts[i][:400])
            continue
        oracle(ctx, i, c, by[i], texts[i])
        if len(ctx.violations) > 8:
            break
    if ctx.model:
        model, _ = core.run_tool_sharded(ctx.model, ['c06'], path)
        for k, a, b in core.diff_lines(model, impl, limit=5):
            idx = int((a if a != '<missing>' else b).split(' ')[1])
            ctx.violation('model and implementation disagree', case=texts[idx][:600], model=a[:400], impl=b[:400],
                          shape=cases[idx]['shape'])
    shapes = {}
    outcomes = {'ok': 0, 'err': 0}
    nmsg = 0
    for i, c in enumerate(cases):
        shapes[c['shape']] = shapes.get(c['shape'], 0) + 1
        l = by.get(i, '')
        outcomes['err' if 'err:' in l else 'ok'] += 1
        nmsg += l.count('ffffffffffffffffffffffffffffffff')
    ctx.coverage.update({
        'evaluations': len(cases),
        'distinct_nontrivial': len(set(texts)),
        'rule': 'builder scripts (attributes, next hop of every form incl. the refused placeholder, announcements and withdrawals of '
                'every family with/without path ids, interleaved) with sizes landing on and around the split thresholds (4000, '
                'limit, 4096, the len*2 shortcut, single NLRI above the thresholds); into_messages / PduIterator / into_message / '
                'take_message; every produced message split by an independent decoder: size, length fields, conservation, '
                'attribute set and next hop, no empty message; plus model = implementation on every script',
        'input_distribution': {'shapes': shapes, 'outcomes': outcomes, 'messages_produced': nmsg,
                               'families': len(set((c['fam'], c['ap']) for c in cases)),
                               'max_items': max(len(c['ann']) + len(c['wd']) for c in cases)},
    })
    ctx.samples = [texts[0][:300], by.get(0, '')[:300]]


def replay(ctx, path):
    run(ctx)
