"""C09 - BGP stream framing is chunking-invariant and survives bad length fields."""
import os
import struct
from lib import core, updenc
from props.c08 import open_msg, KEEPALIVE, UPDATE, NOTIF, hdr, MARKER

GENERATORS = ['fsm', 'caps', 'enums', 'attrs']
TRUSTED_BASE = [
    'Coq 8.16.1 kernel (coqc); no axioms',
    'hand-written Model/Fsm.v (parse_frame, the read loop as feed, read_message), bodies of parse_frame / read_frame / read_message pinned by hash '
    '(tools/gen_fsm.py); tied by the correspondence run through the cfg hooks (octets appended to Connection\'s buffer, extractor run directly)',
    'extraction: ExtrOcamlBasic only; ocaml/c08.ml, harness/src/c08.rs',
]
ASSUMPTIONS = [
    'the theorems are parametric in the validity predicate of an extracted frame (Message::from_octets); socket reads are modelled as appends to '
    'the buffer; for read_message the octets after a short read are unspecified in Rust and not compared',
]


def partitions(rng, n, stream, mode):
    if mode == 'one':
        return [stream[i:i + 1] for i in range(len(stream))]
    if mode == 'two':
        k = rng.below(len(stream) + 1)
        return [stream[:k], stream[k:]]
    cuts = sorted(set(rng.below(len(stream) + 1) for _ in range(n)))
    out = []
    prev = 0
    for c in cuts:
        out.append(stream[prev:c]); prev = c
    out.append(stream[prev:])
    return out


def run(ctx):
    d = core.case_dir('C09')
    rng = core.SplitMix(ctx.seed)
    quick = ctx.tier == 'quick'
    lines = []
    meta = []
    msgs_pool = [KEEPALIVE, UPDATE, NOTIF, open_msg(65001, 90, [(65, struct.pack('>I', 65001))]), open_msg(64513, 30, []),
                 hdr(23 + 4, 2) + b'\x00\x00\x00\x00' + b'\x18\x0a\x00\x01']
    # 1. every split point of short streams
    for k in (1, 2, 3):
        for _ in range(6 if quick else 60):
            ms = [rng.choice(msgs_pool) for _ in range(k)]
            stream = b''.join(ms)
            for cut in range(len(stream) + 1):
                lines.append('FRM %d %s,%s' % (len(lines), stream[:cut].hex() or '-', stream[cut:].hex() or '-'))
                meta.append(('frames', ms))
    # 1b. bursts: more than 64 KiB in the receive buffer at once (message lengths have 16 bits, what is buffered has not): one read
    #     with everything, and two reads split around 65536
    for k in range(3 if quick else 12):
        ms = []
        while sum(len(m) for m in ms) < 66000 + 3000 * k:
            n = rng.choice([20, 50, 200, 900])       # UPDATEs of 103 .. 3623 octets between the short messages
            ms.append(rng.choice(msgs_pool + [hdr(23 + 4 * n, 2) + b'\x00\x00\x00\x00' + b''.join(b'\x18\x0a' + bytes([i >> 8, i & 255]) for i in range(n))] * 6))
        stream = b''.join(ms)
        lines.append('FRM %d %s' % (len(lines), stream.hex()))
        meta.append(('frames', ms))
        for cut in [65535, 65536, 65537] + [65400 + rng.below(400) for _ in range(1 if quick else 6)]:
            lines.append('FRM %d %s,%s' % (len(lines), stream[:cut].hex(), stream[cut:].hex()))
            meta.append(('frames', ms))
    # 2. random partitions, one-octet reads, empty reads
    for _ in range(300 if quick else 20000):
        ms = [rng.choice(msgs_pool) for _ in range(1 + rng.below(5))]
        stream = b''.join(ms)
        ch = partitions(rng, rng.choice([2, 3, 5, 9]), stream, rng.choice(['one', 'two', 'n', 'n', 'n']))
        if rng.chance(1, 4):
            ch.insert(rng.below(len(ch) + 1), b'')
        lines.append('FRM %d %s' % (len(lines), ','.join(c.hex() or '-' for c in ch)))
        meta.append(('frames', ms))
    # 3. every length value in a header (after one good message), with and without the octets behind it
    for ln in (list(range(0, 40)) + [4095, 4096, 4097, 65535] + ([rng.below(65536) for _ in range(60)] if quick else list(range(40, 65536, 7)))):
        h = MARKER + struct.pack('>HB', ln, 4)
        lines.append('FRM %d %s,%s' % (len(lines), KEEPALIVE.hex(), h.hex()))
        meta.append(('badlen', ln))
        lines.append('RDM %d %s' % (len(lines), (h + bytes(max(0, min(ln, 5000) - 19))).hex()))
        meta.append(('rdm', ln))
    # 3b. the blocking reader on a source that hands out at most k octets per read() (a socket, a pipe, two chained slices):
    #     the messages of the stream, each once, in order, whatever k is
    for _ in range(40 if quick else 2000):
        ms = [rng.choice(msgs_pool) for _ in range(1 + rng.below(5))]
        for k in rng.choice([[1], [2, 17], [3, 18], [19, 20], [5, 1000], [7]]):
            lines.append('RDS %d %d %s' % (len(lines), k, b''.join(ms).hex()))
            meta.append(('rds', ms))
    # 4. bad markers, illegal types, arbitrary octets
    for _ in range(100 if quick else 5000):
        b = bytearray(rng.choice(msgs_pool))
        k = rng.below(3)
        if k == 0:
            b[rng.below(16)] = rng.below(255)
        elif k == 1:
            b[18] = rng.choice([0, 5, 6, 7, 200])
        else:
            b = bytearray(bytes(rng.below(256) for _ in range(rng.below(70))))
        lines.append('FRM %d %s,%s' % (len(lines), KEEPALIVE.hex(), bytes(b).hex() or '-'))
        meta.append(('junk',))
    # 5. through the socket: Connection::read_frame until the close.  All messages coalesced into one write (and the close straight
    #    behind it), every split point, one-octet writes, random partitions; streams cut inside a message; junk behind good messages
    def sck(mode, chunks, tag):
        chunks = [c for c in chunks if c]
        lines.append('SCK %d %s %s' % (len(lines), mode, ','.join(c.hex() for c in chunks) or '-'))
        meta.append(tag)
    sck('a', [], ('sck', [], 'EOF'))
    for k in (1, 2, 3, 4):
        for _ in range(3 if quick else 40):
            ms = [rng.choice(msgs_pool) for _ in range(k)]
            stream = b''.join(ms)
            sck('a', [stream], ('sck', ms, 'EOF'))
            sck('b', [stream], ('sck', ms, 'EOF'))
            sck('a', ms, ('sck', ms, 'EOF'))
            sck('b', ms, ('sck', ms, 'EOF'))
    for _ in range(40 if quick else 3000):
        ms = [rng.choice(msgs_pool) for _ in range(1 + rng.below(5))]
        stream = b''.join(ms)
        ch = partitions(rng, rng.choice([2, 3, 5, 9]), stream, rng.choice(['two', 'n', 'n', 'n']))
        sck(rng.choice('ab'), ch, ('sck', ms, 'EOF'))
    for _ in range(4 if quick else 60):
        ms = [rng.choice(msgs_pool[:3]) for _ in range(1 + rng.below(2))]
        sck(rng.choice('ab'), partitions(rng, 0, b''.join(ms), 'one'), ('sck', ms, 'EOF'))
    for _ in range(30 if quick else 2000):
        ms = [rng.choice(msgs_pool) for _ in range(rng.below(4))]
        last = rng.choice(msgs_pool)
        cut = 1 + rng.below(len(last) - 1)
        stream = b''.join(ms) + last[:cut]
        ch = partitions(rng, rng.choice([1, 2, 3]), stream, rng.choice(['two', 'n']))
        sck(rng.choice('ab'), ch, ('sck', ms, 'E'))
    for _ in range(30 if quick else 2000):
        ms = [rng.choice(msgs_pool) for _ in range(rng.below(3))]
        k = rng.below(3)
        if k == 0:
            junk = MARKER + struct.pack('>HB', rng.below(19), 4) + bytes(rng.below(30))
        elif k == 1:
            junk = bytearray(rng.choice(msgs_pool)); junk[rng.below(16)] = rng.below(255); junk = bytes(junk)
        else:
            junk = bytes(rng.below(256) for _ in range(1 + rng.below(70)))
        ch = partitions(rng, rng.choice([1, 2, 3]), b''.join(ms) + junk, rng.choice(['two', 'n']))
        sck(rng.choice('ab'), ch, ('sckjunk', ms))
    # 6. every kind of message the peer can send, in every state of the session that has a connection, through handle_msg and
    #    (black box) through tick(): none may panic the session task, legal in that state or not
    ok_open = open_msg(65001, 30, [(65, struct.pack('>I', 65001)), (69, struct.pack('>HBB', 1, 1, 2))])
    wire = [('keepalive', KEEPALIVE), ('update', UPDATE), ('update-nlri', hdr(23 + 4, 2) + b'\x00\x00\x00\x00' + b'\x18\x0a\x00\x01'),
            ('routerefresh', hdr(23, 5) + b'\x00\x01\x00\x01'),
            ('open', ok_open), ('open-v3', ok_open[:19] + b'\x03' + ok_open[20:]), ('open-badas', open_msg(65002, 90, [(65, struct.pack('>I', 65002))])),
            ('open-hold1', open_msg(65001, 1, [])), ('open-16', open_msg(65003, 3, [])),
            ('open-aperr', open_msg(65005, 90, [(65, struct.pack('>I', 65005)), (69, struct.pack('>HBB', 1, 1, 0))]))]
    # OPENs whose capabilities have count / length fields at their extremes, or a four-octet capability of the wrong size: refused
    # by the frame decoder or handled, never a panic further down (my_asn, addpath_families, ...)
    from props import c03
    for ln in (0, 3, 5, 8, 32):
        wire.append(('open-cap65-len%d' % ln, open_msg(65001, 90, [(65, bytes(range(1, ln + 1)))])))
    for ln in (3, 5):
        wire.append(('open-cap1-len%d' % ln, open_msg(65001, 90, [(65, struct.pack('>I', 65001)), (1, bytes([0, 1, 0, 1, 9][:ln]))])))
    for i in range(12 if quick else 200):
        c, v = c03.adversarial_cap(rng)
        if len(v) <= 200:
            wire.append(('open-adv-%d-%d' % (c, i), open_msg(65001, 90, [(65, struct.pack('>I', 65001)), (c, v)])))
    # the 'My Autonomous System' field and the four-octet capability disagree
    wire.append(('open-as-65001-cap-65002', open_msg(65001, 90, [(65, struct.pack('>I', 65002))])))
    wire.append(('open-as-65002-cap-65001', open_msg(65002, 90, [(65, struct.pack('>I', 65001))])))
    for code in range(8):
        for sub in (0, 1, 2, 3, 8, 11):
            for data in (b'', b'\x00\x04'):
                wire.append(('notif-%d.%d%s' % (code, sub, '+d' if data else ''), hdr(21 + len(data), 3) + bytes([code, sub]) + data))
    passive = ['e:ManualStartWithPassiveTcpEstablishment']
    fsm_prefix = {
        'Idle': [], 'Active': passive, 'OpenSent': passive + ['e:TcpConnectionConfirmed'],
        'OpenConfirm': passive + ['e:TcpConnectionConfirmed', 'm:' + ok_open.hex()],
        'Established': passive + ['e:TcpConnectionConfirmed', 'm:' + ok_open.hex(), 'm:' + KEEPALIVE.hex()],
        # Connect with the connection still attached: tick() maps a failed OPEN (unparsable ADD-PATH capability) to Connect (K6)
        'Connect': passive + ['e:TcpConnectionConfirmed', 't:' + open_msg(65005, 90, [(65, struct.pack('>I', 65005)), (69, struct.pack('>HBB', 1, 1, 0))]).hex()],
    }
    n_wire = 0
    for st, pre in fsm_prefix.items():
        for name, b in wire:
            for via in ('m', 't'):
                for delay in ((0, 1) if (quick and name.startswith('notif') and via == 't') is False else (rng.below(2),)):
                    # the session's own hold time as well: 0 (no keepalives), 1 and 2 give a keepalive period of 0 s
                    hold = rng.choice([90, 90, 0, 1, 2, 3])
                    lines.append('FSM %d %d %d 1.1,2.1 %s' % (len(lines), delay, hold, ';'.join(pre + ['%s:%s' % (via, b.hex())])))
                    meta.append(('wire', st, name, via, delay))
                    n_wire += 1
    path = os.path.join(d, 'cases.txt')
    with open(path, 'w') as f:
        f.write('\n'.join(lines) + '\n')
    impl, _ = core.run_tool_sharded(ctx.harness, ['c09'], path, timeout=3000, min_lines=200, interleave=True)
    impl = [l for l in impl if l]
    by = {int(l.split(' ')[1]): l for l in impl}
    stats = {'frames_cases': 0, 'badlen': 0, 'errors': 0}
    for i, m in enumerate(meta):
        if len(ctx.violations) > 8:
            break
        l = by.get(i)
        if l is None:
            ctx.violation('no result from the implementation harness', case=lines[i][:300]); continue
        body = l.split(' ', 2)[2] if l.count(' ') >= 2 else ''
        if 'PANIC' in body and m[0] != 'wire':
            ctx.violation('frame extraction panicked', case=lines[i][:600], impl=l[:300]); continue
        if m[0] == 'frames':
            stats['frames_cases'] += 1
            want = '%s rest=0' % ','.join(x.hex() for x in m[1])
            if body != want:
                ctx.violation('the messages extracted differ from the messages sent (each once, in order, nothing left)', case=lines[i][:600],
                              impl=body[:300], want=want[:300])
        elif m[0] == 'wire':
            stats['wire_cases'] = stats.get('wire_cases', 0) + 1
            flds = l.split(' ', 2)[2].split(' ; ')
            nsteps = lines[i].split(' ', 5)[5].count(';') + 1
            if len(flds) < nsteps:
                stats['wire_prefix_incomplete'] = stats.get('wire_prefix_incomplete', 0) + 1
                continue
            last = flds[-1]
            reached = flds[-2].split(',')[0] if len(flds) > 1 else 'Idle'
            reached = reached.split(' ')[-1]
            stats['wire_state_' + reached] = stats.get('wire_state_' + reached, 0) + 1     # with DelayOpen the prefixes end elsewhere
            if 'PANIC' in last.split('|')[-1]:
                ctx.violation('a message from the peer panicked the session task (state %s, message %s, through %s, DelayOpen %d)' % m[1:],
                              case=lines[i][:600], impl=last[:200])
            continue
        elif m[0] == 'sck':
            stats['socket_cases'] = stats.get('socket_cases', 0) + 1
            want = '%s end=%s' % (','.join(x.hex() for x in m[1]), m[2])
            if body != want:
                ctx.violation('the socket reader did not deliver the messages sent (each once, in order, then the close; an error for a '
                              'stream cut inside a message)', case=lines[i][:600], impl=body[:300], want=want[:300])
        elif m[0] == 'sckjunk':
            stats['socket_cases'] = stats.get('socket_cases', 0) + 1
            want = ','.join(x.hex() for x in m[1])
            got = body.rsplit(' end=', 1)
            if not got[0].startswith(want) or got[1] not in ('E', 'EOF'):
                ctx.violation('the socket reader lost a good message ahead of the octets that do not frame, or did not end', case=lines[i][:600],
                              impl=body[:300], want=want[:300])
        elif m[0] == 'badlen':
            stats['badlen'] += 1
            ln = m[1]
            frames = body.split(' ')[0].split(',')
            if ln < 19 and frames[-1] != 'E':
                ctx.violation('a length field below 19 must end the extraction with an error', case=lines[i][:300], impl=body[:200])
            if ln == 19 and frames[-1] == 'E':
                ctx.violation('a well-formed KEEPALIVE was rejected', case=lines[i][:300], impl=body[:200])
        elif m[0] == 'rds':
            want = ','.join(['ok:' + x.hex() for x in m[1]] + ['none'])
            if body != want:
                ctx.violation('read_message on a source that delivers short reads does not return the messages of the stream', case=lines[i][:300],
                              impl=body[:300], want=want[:300])
        elif m[0] == 'rdm':
            ln = m[1]
            ok = body.startswith('ok:')
            if (19 <= ln <= 4096) != ok:
                ctx.violation('read_message: a frame iff the length is within 19..=4096 (got %s for %d)' % (body[:20], ln), case=lines[i][:200])
            elif ok and len(body[3:]) != 2 * ln:
                ctx.violation('read_message: frame of the wrong size', case=lines[i][:200], impl=body[:100])
        if body.endswith('E') or ',E ' in body or body.startswith('E'):
            stats['errors'] += 1
    if ctx.model:
        model, _ = core.run_tool_sharded(ctx.model, ['c09'], path, timeout=3000, min_lines=200, interleave=True)
        for k, a, b in core.diff_lines(model, impl, limit=5):
            idx = int((a if a != '<missing>' else b).split(' ')[1])
            ctx.violation('model and implementation disagree', case=lines[idx][:600], model=a[:300], impl=b[:300])
    ctx.coverage.update({
        'evaluations': len(lines),
        'distinct_nontrivial': len(set(lines)),
        'rule': 'streams of 1..5 messages (KEEPALIVE, UPDATE, NOTIFICATION, OPENs) cut at every split point, into one-octet reads, random '
                'partitions, with empty reads; the same streams through the socket and Connection::read_frame (all messages coalesced into one write '
                'with the close straight behind, every message its own write, one-octet writes, random partitions, streams cut inside a message, '
                'junk behind good messages); every kind of message (KEEPALIVE, UPDATEs, ROUTE-REFRESH, seven OPENs, NOTIFICATIONs of every code x six subcodes with and without data) sent in each of the six session states, through handle_msg and through tick(), with and without DelayOpen: no panic, model = implementation; every length value 0..39 and a sweep of the rest (all 65536 in the thorough tier) in a header '
                'after a good message, for the extractor and for read_message; wrong markers, illegal types, arbitrary octets; extraction judged '
                'against the messages sent; plus model = implementation',
        'input_distribution': stats,
    })
    ctx.samples = [lines[0][:200], by.get(0, '')[:200]]


def replay(ctx, path):
    run(ctx)
