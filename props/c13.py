"""C13 - AS path conversions preserve hops and emit valid wire form; 2/4-octet paths equate."""
import os
from lib import core
from lib.core import CheckFailure

GENERATORS = ['enums']
TRUSTED_BASE = [
    'Coq 8.16.1 kernel (coqc); no axioms',
    'hand-written Model/AsPath.v (compose_as_path run splitting len mod 255 + chunks of 255, Segment::compose, AsPath::check, PathSegments/PathHops, prepend, ==, Hash, try_to_asn16_path), tied by the correspondence run',
    'extraction: ExtrOcamlBasic only; ocaml/c13.ml, harness/src/c13.rs',
]
ASSUMPTIONS = [
    'hop paths are built through the public API: ASNs, AS_SETs and confederation segments (no public constructor for a sequence segment hop); an empty sequence segment can only come from the wire',
    'K1: a non-sequence segment hop with more than 255 ASNs makes to_as_path panic (recorded as a known finding, excluded by hop_ok)',
]


def tok_run(start, n):
    return ['a%d' % (start + i) for i in range(n)]


def gen(ctx):
    rng = core.SplitMix(ctx.seed)
    lines = []
    meta = []
    lens = [0, 1, 2, 3, 100, 253, 254, 255, 256, 257, 258, 300, 508, 509, 510, 511, 512, 513, 599, 600]
    if ctx.tier == 'thorough':
        lens = list(range(0, 601))

    def hops_case(toks, known=False):
        lines.append('HOPS %d %s' % (len(lines), ';'.join(toks) if toks else '-'))
        meta.append(('hops', toks, known))

    for n in lens:
        hops_case(tok_run(64000, n))
        hops_case(tok_run(64000, n) + ['S1:1,2'] + tok_run(100, rng.below(4)))
        hops_case(['S4:7'] + tok_run(70000 if rng.chance(1, 2) else 500, n) + ['S3:9,10'])
    for size in (0, 1, 2, 254, 255):
        for ty in (1, 3, 4):
            hops_case(['a1', 'S%d:%s' % (ty, ','.join(str(10 + i) for i in range(size))), 'a2'])
    for ty in (1, 3, 4):
        hops_case(['S%d:%s' % (ty, ','.join(str(10 + i) for i in range(256)))], known=True)          # K1
        hops_case(['a5', 'S%d:%s' % (ty, ','.join(str(10 + i) for i in range(300)))], known=True)   # K1
    # the far end of the two-octet range inside every segment type and as a plain hop: 65535 converts, 65536 does not
    for ty in (1, 3, 4):
        for a in (65534, 65535, 65536, 23456):
            hops_case(['S%d:%d' % (ty, a)])
            hops_case(['S%d:10,%d' % (ty, a), 'a%d' % a])
            hops_case(['a%d' % a, 'S%d:%d,%d' % (ty, a, a)])
    for _ in range(300 if ctx.tier == 'quick' else 5000):
        toks = []
        big = rng.chance(1, 2)      # half of the paths stay inside the two-octet range, so that the 16-bit conversion succeeds
        for _ in range(rng.below(6)):
            if rng.chance(2, 3):
                base = rng.choice([1, 64000, 65530, 4200000000] if big else [1, 64000, 65000])
                toks += tok_run(base, rng.choice([1, 2, 3, 10, 255, 256, 260]))
            else:
                toks.append('S%d:%s' % (rng.choice([1, 3, 4]), ','.join(str(rng.choice([1, 65535, 65536, 4294967295, rng.below(1 << 32)] if big else [1, 23456, 65534, 65535, rng.below(65536)]))
                                                                  for _ in range(rng.choice([0, 1, 2, 5, 255])))))
        hops_case(toks)

    def enc_segs(segs, four):
        out = b''
        for t, asns in segs:
            out += bytes([t, len(asns)]) + b''.join(a.to_bytes(4 if four else 2, 'big') for a in asns)
        return out

    def rand_segs(maxasn):
        segs = []
        for _ in range(rng.below(5)):
            n = rng.choice([0, 1, 2, 3, 10, 254, 255])
            segs.append((rng.choice([1, 2, 2, 2, 3, 4]), [rng.below(maxasn) for _ in range(n)]))
        return segs

    for _ in range(600 if ctx.tier == 'quick' else 20000):
        four = rng.chance(1, 2)
        segs = rand_segs((1 << 32) if four else 65536)
        w = enc_segs(segs, four)
        mode = rng.below(6)
        if mode == 0 and w:
            w = w[:rng.below(len(w))]
        elif mode == 1 and w:
            b = bytearray(w); b[0] = rng.choice([0, 5, 255]); w = bytes(b)
        elif mode == 2:
            w = bytes(rng.below(8) for _ in range(rng.below(12)))
        lines.append('WIRE %d %d %s %d %d' % (len(lines), 1 if four else 0, w.hex() or '-', rng.choice([1, 65000, 4200000000]),
                                               rng.choice([0, 1, 2, 254, 255, 256, 600, rng.below(600)])))
        meta.append(('wire', segs if mode > 2 else None, four))
    for _ in range(300 if ctx.tier == 'quick' else 8000):
        segs = rand_segs(65536)
        other = segs
        same = True
        if rng.chance(1, 3) and segs:
            other = [list(s) for s in segs]
            i = rng.below(len(other))
            if other[i][1]:
                other[i] = (other[i][0], other[i][1][:-1] + [(other[i][1][-1] + 1) % 65536])
            else:
                other[i] = (other[i][0] % 4 + 1, other[i][1])
            other = [tuple(s) for s in other]
            same = False
        lines.append('EQ %d %s %s' % (len(lines), enc_segs(segs, False).hex() or '-', enc_segs(other, True).hex() or '-'))
        meta.append(('eq', same))
    return lines, meta


def hop_display(toks):
    names = {'1': 'AS_SET', '2': 'AS_SEQUENCE', '3': 'AS_CONFED_SEQUENCE', '4': 'AS_CONFED_SET'}
    out = []
    for t in toks:
        if t[0] == 'a':
            out.append('AS' + t[1:])
        else:
            ty, lst = t[1:].split(':')
            out.append('%s(%s)' % (names[ty], ','.join('AS' + x for x in lst.split(',') if x)))
    return '|'.join(out) if out else '-'


def run(ctx):
    d = core.case_dir('C13')
    lines, meta = gen(ctx)
    path = os.path.join(d, 'cases.txt')
    with open(path, 'w') as f:
        f.write('\n'.join(lines) + '\n')
    impl, _ = core.run_tool_sharded(ctx.harness, ['c13'], path)
    impl = [l for l in impl if l]
    if len(impl) != len(lines):
        raise CheckFailure('corr', 'implementation produced %d lines for %d cases' % (len(impl), len(lines)))
    for l, m, case in zip(impl, meta, lines):
        body = l.split(' ', 2)[2]
        f = dict(x.split('=', 1) for x in body.split(' ') if '=' in x)
        if m[0] == 'hops':
            toks, known = m[1], m[2]
            if 'PANIC' in body:
                if known:
                    ctx.known_hit('K1', '%s -> to_as_path panics' % case[:80])
                else:
                    ctx.violation('panic converting a hop path to wire format', case=case[:300], impl=l[:300])
                continue
            if known:
                continue
            asns = []
            for t in toks:
                asns += [int(t[1:])] if t[0] == 'a' else [int(x) for x in t.split(':')[1].split(',') if x]
            want16_err = any(a > 65535 for a in asns)
            hcps = sum(1 for t in toks if t[0] == 'a' or t.startswith('S1:'))
            bad = None
            if f.get('valid') != '1':
                bad = 'wire form is not a valid AS_PATH'
            elif f.get('hops') != hop_display(toks) or f.get('back') != '1':
                bad = 'hop sequence of the wire form differs from the original'
            elif any(int(c) > 255 for c in f['counts'].split(',') if c != '-'):
                bad = 'segment count does not fit one octet'
            elif (f['w16'] == 'E') != want16_err:
                bad = 'conversion to 2-octet form fails/succeeds wrongly'
            elif int(f['hcps']) != hcps or int(f['hc']) != len(toks):
                bad = 'hop count wrong'
            if bad:
                ctx.violation(bad, case=case[:300], impl=l[:300])
        elif m[0] == 'wire':
            if 'PANIC' in body:
                ctx.violation('panic on a wire AS path', case=case[:300], impl=l[:300])
            elif body != 'E':
                p = case.split()
                asn, n = p[4], int(p[5])
                pre = '|'.join(['AS' + asn] * n + ([f['hops']] if f['hops'] != '-' else [])) or '-'
                if f['backhops'] != f['hops']:
                    ctx.violation('wire -> hops -> wire changed the hop sequence', case=case[:300], impl=l[:300])
                elif f['pre'] != pre:
                    ctx.violation('prepend does not yield n copies followed by the original hops', case=case[:300], impl=l[:300])
            elif m[1] is not None:
                ctx.violation('a valid wire AS path was rejected', case=case[:300], impl=l[:300])
        else:
            if 'PANIC' in body or body == 'E':
                ctx.violation('2/4-octet comparison failed', case=case[:300], impl=l[:300])
            elif m[1] and (f['eq'] != '1' or f['eqr'] != '1' or f['hasheq'] != '1'):
                ctx.violation('2-octet and 4-octet path with the same segments are not == / hash differently', case=case[:300], impl=l[:300])
            elif not m[1] and f['eq'] == '1':
                ctx.violation('different paths compare equal', case=case[:300], impl=l[:300])
        if len(ctx.violations) > 10:
            break
    if ctx.model:
        model, _ = core.run_tool_sharded(ctx.model, ['c13'], path)
        for k, a, b in core.diff_lines(model, impl, limit=5):
            ctx.violation('model and implementation disagree', case=lines[k][:300] if k < len(lines) else None, model=a[:400], impl=b[:400])
    kinds = {}
    for m in meta:
        kinds[m[0]] = kinds.get(m[0], 0) + 1
    ctx.coverage.update({
        'evaluations': len(impl),
        'distinct_nontrivial': len(set(lines)),
        'rule': 'hop paths with run lengths %s crossing 255 and 510 mixed with AS_SET / confederation segments of 0..255 ASNs '
                '(and the K1 class > 255), wire paths of both ASN widths (valid, truncated, bad segment type, random) with '
                'prepend counts up to 600, 2-/4-octet encodings of the same and of slightly different segment lists; '
                'distinct = distinct case lines' % ('0..=600 (all)' if ctx.tier == 'thorough' else 'around 0, 255, 510, 600'),
        'input_distribution': kinds,
    })
    ctx.samples = [lines[4][:200], impl[4][:300]]


def replay(ctx, path):
    run(ctx)
