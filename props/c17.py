"""C17 - attribute map and route workshop store and return what was put in."""
import os
import struct
from lib import core, nlrienc, updenc

GENERATORS = ['attrs', 'builder', 'enums']
TRUSTED_BASE = [
    'Coq 8.16.1 kernel (coqc); no axioms',
    'hand-written Model/PaMap.v (PaMap operations, OwnedPathAttributes::get, RouteWorkshop set/get, Vec<Community> store/retrieve, '
    'from_update_pdu) over the C04 attribute model and the C01 decoder model; generated attribute table; tied by the correspondence run',
    'extraction: ExtrOcamlBasic only; ocaml/c17.ml, harness/src/c17.rs; the Python reference map in props/c17.py (oracle only)',
]
ASSUMPTIONS = [
    'the map is modelled as an association list with strictly ascending keys (what BTreeMap<u8, _> is observationally); values are compared '
    'through their composed octets',
]

CANON = updenc.CANON
TYPED = [1, 2, 3, 4, 5, 6, 7, 8, 9, 10, 16, 17, 18, 20, 21, 25, 32, 35, 128, 255]
WS_CODES = [1, 2, 4, 5, 7, 8, 9, 10, 16, 21, 25, 32, 35]
WIDTH = {8: 4, 10: 4, 16: 8, 25: 20, 32: 12}


def typed_tlv(rng, code, pool):
    """a canonical TLV of a typed attribute (what compose() writes); values from small pools so that replacements and repeats occur"""
    def p(n):
        return rng.choice(pool[n])
    if code == 1:
        v = bytes([rng.below(3)])
    elif code in (2, 17):
        n = rng.below(4)
        v = (bytes([2, n]) + b''.join(struct.pack('>I', rng.choice([1, 65000, 4200000000])) for _ in range(n))) if n else b''
        if rng.chance(1, 3):
            v += bytes([1, 2]) + struct.pack('>II', 7, 8)
    elif code in (3, 9, 20, 4, 5, 35):
        v = p(4)
    elif code == 6:
        v = b''
    elif code in (7, 18):
        v = p(4) + p(4)
    elif code in WIDTH:
        v = b''.join(p(WIDTH[code]) for _ in range(rng.choice([0, 1, 2, 3, 5, 70])))
    elif code == 21:
        v = bytes([rng.below(256)]) + p(4)
    elif code == 128:
        v = p(4) + bytes(rng.below(256) for _ in range(rng.below(5)))
    else:
        v = bytes(rng.below(256) for _ in range(rng.below(6)))
    return updenc.tlv(CANON[code], code, v)


def gen_map_case(rng):
    pool = {n: [bytes(rng.below(256) for _ in range(n)) for _ in range(3)] for n in (4, 8, 12, 20)}
    ops = []
    for _ in range(2 + rng.below(14)):
        k = rng.choice(['S', 'S', 'S', 'G', 'G', 'R', 'A', 'AU', 'AI', 'M', 'N', 'L', 'WS', 'WS', 'WG', 'WC', 'WR', 'WL'])
        code = rng.choice(TYPED)
        if k == 'S':
            ops.append('S:' + typed_tlv(rng, code, pool).hex())
        elif k in ('G', 'R'):
            ops.append('%s:%d' % (k, code))
        elif k == 'A':
            ops.append('A:' + typed_tlv(rng, code, pool).hex())
        elif k == 'AU':
            c = rng.choice([11, 12, 40, 200, 14, 15])
            ops.append('A:' + updenc.tlv(rng.choice([0x80, 0xc0, 0x40, 0x00, 0xe0, 0xa0]), c, bytes(rng.below(256) for _ in range(rng.choice([0, 3, 254, 255, 256, 300])))).hex())
        elif k == 'AI':
            c = rng.choice([1, 3, 4, 5, 8, 16, 32])
            ops.append('A:' + updenc.tlv(CANON[c], c, bytes(rng.below(256) for _ in range(rng.choice([7, 13, 2, 255, 257])))).hex())
        elif k == 'M':
            tl = b''.join(typed_tlv(rng, rng.choice(TYPED), pool) for _ in range(rng.below(4)))
            if rng.chance(1, 3):
                tl += updenc.tlv(0xc0, 200, b'\x01\x02')
            ops.append('M:' + (tl.hex() or '-'))
        elif k in ('N', 'L', 'WR', 'WL'):
            ops.append(k)
        elif k == 'WS':
            ops.append('WS:' + typed_tlv(rng, rng.choice(WS_CODES), pool).hex())
        elif k == 'WG':
            ops.append('WG:%d' % rng.choice(WS_CODES))
        elif k == 'WC':
            n = rng.choice([0, 1, 2, 4, 9])
            l = []
            for _ in range(n):
                fl = rng.choice([8, 16, 25, 32])
                l.append('%d.%s' % (fl, rng.choice(pool[WIDTH[fl]]).hex()))
            ops.append('WC:' + (','.join(l) or '-'))
            ops.append('WR')
    ops.append('L')
    ops.append('WL')
    return ops


def split_tlvs(b):
    out = []
    p = 0
    while p < len(b):
        fl, code = b[p], b[p + 1]
        if fl & 0x10:
            vl = struct.unpack('>H', b[p + 2:p + 4])[0]; h = 4
        else:
            vl = b[p + 2]; h = 3
        out.append((fl, code, b[p + h:p + h + vl], b[p:p + h + vl]))
        p += h + vl
    return out


def is_typed_valid(code, v):
    """does the value satisfy the type's length rule (four-octet ASNs)?"""
    n = len(v)
    if code in (1,):
        return n == 1
    if code in (3, 4, 5, 9, 20, 35):
        return n == 4
    if code == 6:
        return n == 0
    if code in (7, 18):
        return n == 8
    if code in WIDTH:
        return n % WIDTH[code] == 0
    if code == 21:
        return n == 5
    if code == 128:
        return n >= 4
    if code == 255:
        return True
    if code in (2, 17):
        p = 0
        while p < n:
            if p + 2 > n or not (1 <= v[p] <= 4):
                return False
            p += 2 + 4 * v[p + 1]
        return p == n
    return False


def canon_path(v):
    """HopPath::to_as_path of the hops of a four-octet AS path: consecutive non-empty AS_SEQUENCEs become one run, written as
    a first segment of (n mod 255) ASNs followed by segments of 255; every other segment is kept"""
    segs = []
    p = 0
    while p < len(v):
        t, n = v[p], v[p + 1]
        segs.append((t, [v[p + 2 + 4 * i:p + 6 + 4 * i] for i in range(n)]))
        p += 2 + 4 * n
    out = b''
    run = []

    def flush():
        nonlocal out, run
        if run:
            h = len(run) % 255
            chunks = ([run[:h]] if h else []) + [run[i:i + 255] for i in range(h, len(run), 255)]
            for c in chunks:
                out += bytes([2, len(c)]) + b''.join(c)
            run = []
    for t, asns in segs:
        if t == 2 and asns:
            run += asns
        else:
            flush()
            out += bytes([t, len(asns)]) + b''.join(asns)
    flush()
    return out


def recompose(fl, code, v):
    """what the owned value of a received TLV composes to"""
    if code in CANON and code not in (14, 15):
        if is_typed_valid(code, v):
            if code in (2, 17):
                v = canon_path(v)
            return 'T', updenc.tlv(CANON[code], code, v)
        return 'I', updenc.tlv(CANON[code] | 0x20, code, v)
    return 'U', updenc.tlv((fl | 0x20) & 0xef, code, v)


def ref_map_case(ops):
    """the simple abstract map: code -> (kind, flags for transitivity, composed octets)"""
    m = {}
    ws = {}
    out = []

    def entry(tlvhex):
        fl, code, v, raw = split_tlvs(bytes.fromhex(tlvhex))[0]
        kind, comp = recompose(fl, code, v)
        tr = (CANON[code] if kind in ('T', 'I') else fl) & 0x40
        return code, (kind, tr, comp.hex())

    def dump(mm):
        total = sum(len(e[2]) // 2 for e in mm.values())
        return 'len=%d empty=%d bytes=%d [%s]' % (len(mm), 0 if mm else 1, total, ','.join('%d=%s' % (k, mm[k][2]) for k in sorted(mm)))
    for op in ops:
        k, _, arg = op.partition(':')
        if k == 'S':
            code, e = entry(arg)
            if e[0] != 'T':
                out.append('-')
                continue
            old = m.get(code)
            m[code] = e
            out.append(old[2] if old and old[0] == 'T' else '-')
        elif k == 'A':
            code, e = entry(arg)
            old = m.get(code)
            m[code] = e
            out.append(old[2] if old else '-')
        elif k == 'G':
            e = m.get(int(arg))
            out.append(e[2] if e and e[0] == 'T' else '-')
        elif k == 'R':
            e = m.pop(int(arg), None)
            out.append(e[2] if e and e[0] == 'T' else '-')
        elif k == 'M':
            if arg != '-':
                for fl, code, v, raw in split_tlvs(bytes.fromhex(arg)):
                    kind, comp = recompose(fl, code, v)
                    m[code] = (kind, (CANON[code] if kind in ('T', 'I') else fl) & 0x40, comp.hex())
            out.append('other=0')
        elif k == 'N':
            for c in [c for c in m if not m[c][1]]:
                del m[c]
            out.append('ok')
        elif k == 'L':
            out.append(dump(m))
        elif k == 'WS':
            code, e = entry(arg)
            ws[code] = e
            out.append('ok')
        elif k == 'WG':
            e = ws.get(int(arg))
            out.append(e[2] if e and e[0] == 'T' else '-')
        elif k == 'WC':
            l = [] if arg == '-' else [(int(x.split('.')[0]), x.split('.')[1]) for x in arg.split(',')]
            for fl in (8, 16, 25, 32):
                ws.pop(fl, None)
                items = [h for f, h in l if f == fl]
                if items:
                    ws[fl] = ('T', 0x40, updenc.tlv(CANON[fl], fl, bytes.fromhex(''.join(items))).hex())
            out.append('ok')
        elif k == 'WR':
            res = []
            for fl in (8, 16, 25, 32):
                e = ws.get(fl)
                if e and e[0] == 'T':
                    v = split_tlvs(bytes.fromhex(e[2]))[0][2]
                    res += ['%d.%s' % (fl, v[i:i + WIDTH[fl]].hex()) for i in range(0, len(v), WIDTH[fl])]
            out.append('[%s]' % ','.join(res))
        elif k == 'WL':
            out.append(dump(ws))
    return '|'.join(out)


def run(ctx):
    d = core.case_dir('C17')
    rng = core.SplitMix(ctx.seed)
    nmap = 1500 if ctx.tier == 'quick' else 60000
    nfrom = 800 if ctx.tier == 'quick' else 30000
    lines = []
    meta = []
    for i in range(nmap):
        ops = gen_map_case(rng)
        lines.append('MAP %d %s' % (len(lines), ';'.join(ops)))
        meta.append(('MAP', ops))
    for i in range(nfrom):
        cfg = updenc.gen_cfg(rng)
        content, exp = updenc.gen_content(rng, cfg, size=rng.choice(['small', 'normal']))
        attrs = list(content['attrs'])
        if rng.chance(1, 3) and attrs:
            a = rng.choice(attrs)
            attrs.insert(rng.below(len(attrs) + 1), (a[0], a[1], bytes(rng.below(256) for _ in range(len(a[2]))), a[3]))
        if rng.chance(1, 3):
            attrs.insert(rng.below(len(attrs) + 1), (rng.choice([0x80, 0xc0, 0x40, 0x00]), rng.choice([11, 40, 200]), bytes(rng.below(256) for _ in range(rng.below(6))), False))
        content['attrs'] = attrs
        msg, sec = updenc.encode(content)
        fam = content['reach'][0] if content['reach'] and rng.chance(2, 3) else 'Ipv4Unicast'
        if rng.chance(1, 10):
            fam = rng.choice(nlrienc.FAMS)
        ap = updenc.rx(cfg, nlrienc.AFISAFI[fam])
        lines.append('FROM %d %s %s %d %s' % (len(lines), updenc.cfg_str(cfg), fam, 1 if ap else 0, msg.hex()))
        meta.append(('FROM', (cfg, content, fam, ap)))
    path = os.path.join(d, 'cases.txt')
    with open(path, 'w') as f:
        f.write('\n'.join(lines) + '\n')
    impl, _ = core.run_tool_sharded(ctx.harness, ['c17'], path)
    impl = [l for l in impl if l]
    by = {int(l.split(' ')[1]): l for l in impl}
    stats = {'map_ops': 0, 'from': 0, 'ws_built': 0, 'with_duplicates': 0}
    for i, (kind, m) in enumerate(meta):
        if len(ctx.violations) > 8:
            break
        l = by.get(i)
        if l is None:
            ctx.violation('no result from the implementation harness', case=lines[i][:300])
            continue
        body = l.split(' ', 2)[2] if l.count(' ') >= 2 else ''
        if 'PANIC' in body:
            ctx.violation('the implementation panicked', case=lines[i][:600], impl=l[:400])
            continue
        if kind == 'MAP':
            stats['map_ops'] += len(m)
            want = ref_map_case(m)
            if body != want:
                got, exp = body.split('|'), want.split('|')
                j = next((j for j in range(min(len(got), len(exp))) if got[j] != exp[j]), min(len(got), len(exp)))
                ctx.violation('the attribute map / workshop does not behave like a simple map: operation %d (%s)' % (j, m[j][:80] if j < len(m) else '?'),
                              case=lines[i][:600], impl=(got[j] if j < len(got) else '')[:300], want=(exp[j] if j < len(exp) else '')[:300])
        else:
            cfg, content, fam, ap = m
            stats['from'] += 1
            fields = {}
            for key in ('map', 'opa', 'ws'):
                s = body.find(key + '=')
                fields[key] = s
            ms = body[fields['map'] + 4:fields['opa'] - 1]
            os_ = body[fields['opa'] + 4:fields['ws'] - 1]
            wss = body[fields['ws'] + 3:]
            # expected: first of each type, without 14 / 15; composed with the session's ASN width for AS_PATH / AGGREGATOR
            four = cfg['four']
            tl = []
            for (fl, code, v, ext) in content['attrs']:
                tl.append(((fl | 0x10) if (len(v) > 255 or ext) else fl, code, v))
            codes = [c for _, c, _ in tl]
            if len(set(codes)) != len(codes):
                stats['with_duplicates'] += 1
            if not four:
                continue   # two-octet sessions: the composed octets differ from the received ones by design; the model comparison covers them
            exp = {}
            for fl, code, v in tl:
                if code in exp:
                    continue
                kind2, comp = recompose(fl, code, v)
                exp[code] = (kind2, comp.hex())
            want_map = 'len=%d empty=%d bytes=%d [%s]' % (len(exp), 0 if exp else 1, sum(len(e[1]) // 2 for e in exp.values()),
                                                          ','.join('%d=%s' % (k, exp[k][1]) for k in sorted(exp)))
            if ms != want_map:
                ctx.violation('a map built from an UPDATE does not hold exactly its attributes (first of each type, without MP_REACH/MP_UNREACH)',
                              case=lines[i][:600], impl=ms[:400], want=want_map[:400])
                continue
            want_opa = '[%s]' % ','.join('%d:%s' % (k, exp[k][1]) for k in TYPED if k in exp and exp[k][0] == 'T')
            if os_ != want_opa:
                ctx.violation('OwnedPathAttributes::get disagrees with the map built from the same UPDATE', case=lines[i][:600], impl=os_[:400], want=want_opa[:400])
                continue
            if wss.startswith('nh='):
                stats['ws_built'] += 1
                if ',3=' in wss or '[3=' in wss:
                    ctx.violation('a workshop built from an UPDATE still holds the NEXT_HOP attribute', case=lines[i][:600], impl=wss[:300])
                conv = fam == 'Ipv4Unicast' and content['ann']
                nh_attr = next((v for fl, c, v in tl if c == 3), None)
                if conv:
                    want_nh = 'uni:' + nh_attr.hex() if nh_attr is not None and len(nh_attr) == 4 else None
                else:
                    want_nh = updenc.nh_display(content['reach'][0], content['reach'][1]) if content['reach'] else None
                got_nh = wss.split(' ')[0][3:]
                if want_nh is not None and got_nh != want_nh:
                    ctx.violation('a workshop built from an UPDATE does not carry that NLRI\'s next hop', case=lines[i][:600], impl=wss[:200], want=want_nh)
                rest = {k: e for k, e in exp.items() if k != 3}
                want_ws = '[%s]' % ','.join('%d=%s' % (k, rest[k][1]) for k in sorted(rest))
                if not wss.endswith(want_ws):
                    ctx.violation('a workshop built from an UPDATE does not carry the message\'s attributes', case=lines[i][:600], impl=wss[:300], want=want_ws[:300])
    if ctx.model:
        model, _ = core.run_tool_sharded(ctx.model, ['c17'], path)
        for k, a, b in core.diff_lines(model, impl, limit=5):
            idx = int((a if a != '<missing>' else b).split(' ')[1])
            ctx.violation('model and implementation disagree', case=lines[idx][:600], model=a[:400], impl=b[:400])
    ctx.coverage.update({
        'evaluations': len(lines),
        'distinct_nontrivial': len(set(lines)),
        'rule': 'operation histories (set / get / remove / add / merge / strip non-transitives, typed, unrecognised and malformed attributes of '
                'all 20 kinds, values from small pools so that replacement and repeats occur; workshop set/get of the 13 kinds and of community '
                'lists mixing the four flavours) checked against a Python reference map; UPDATEs (with repeated types and unrecognised '
                'attributes) as sources of PaMap / OwnedPathAttributes / RouteWorkshop; plus model = implementation on every line',
        'input_distribution': stats,
    })
    ctx.samples = [lines[0][:300], by.get(0, '')[:300]]


def replay(ctx, path):
    run(ctx)
