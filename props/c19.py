"""C19 - communities keep their raw value through every representation."""
import os
import struct
import subprocess
from lib import core
from lib.core import CheckFailure

GENERATORS = ['comm']
TRUSTED_BASE = [
    'Coq 8.16.1 kernel (coqc); vm_compute for the finite sweeps (15 table rows, 16 hex digits, 256 octets, 65536 type/subtype '
    'octet pairs), each lifted to the quantified statement by a lemma; no axioms (Print Assumptions: closed)',
    'translator tools/gen_comm.py: the wellknown!(..) table, the Unrecognized format string, the ExtendedCommunity::types match '
    'and the two enum declarations are regenerated into Gen/CommTables.v; every FromStr / Display impl, the accessors, strip_as '
    'and the wellknown! macro body are pinned by normal-form hash (tools/pins.json, key comm_pinned)',
    'hand-written Model/Comm.v and Base/Text.v: text is a list of ASCII codes; Rust std behaviour is modelled, not verified: '
    'u16/u32::from_str and from_str_radix (optional +, non-empty digits, overflow is an error), {} / {:02X} / {:02x} / {:x}, '
    'str::split_once / splitn / strip_prefix / to_lowercase (ASCII only), Ipv4Addr Display / FromStr; inetnum Asn / Asn16 '
    'Display ("AS{}") and Asn16::from_str; tied by the correspondence run on every generated raw value and text',
    'extraction: ExtrOcamlBasic only; ocaml/c19.ml, harness/src/c19.rs; the Python oracle in props/c19.py (search only)',
]
ASSUMPTIONS = [
    'text is ASCII: Rust to_lowercase on non-ASCII letters (e.g. U+212A) and byte-offset slicing of non-ASCII text '
    '(Ipv6ExtendedCommunity::from_str slices &hex[0..16]) are outside the model',
    'the "rt:<ipv6>:<n>" Display form of an Ipv6ExtendedCommunity with type octets [0x00, 0x02] is not modelled (the property '
    'claims the text round trip only for the hexadecimal form); its raw value, transitivity and an2 are',
    'the four-octet AS route target / route origin forms round-trip only for AS numbers above 65535 (the property says so): '
    'a smaller one prints as "rt:AS<n>:<m>" and parses back as the two-octet AS form',
]

WK = [0xFFFF0000 + i for i in range(10)] + [0xFFFFFF01, 0xFFFFFF02, 0xFFFFFF03, 0xFFFFFF04, 0xFFFF029A]
EDGE16 = [0, 1, 9, 10, 11, 99, 100, 999, 1000, 9999, 10000, 65534, 65535]
EDGE32 = EDGE16 + [65536, 65537, 99999, 100000, 999999999, 1000000000, 4294967294, 4294967295, 0xFFFF0000, 0x0000FFFF]
NAMED_TYPES = {0: 'TransitiveTwoOctetSpecific', 1: 'TransitiveIp4Specific', 2: 'TransitiveFourOctetSpecific', 3: 'TransitiveOpaque',
               0x40: 'NonTransitiveTwoOctetSpecific', 0x41: 'NonTransitiveIp4Specific', 0x42: 'NonTransitiveFourOctetSpecific',
               0x43: 'NonTransitiveOpaque'}


def gen_raw(rng, n_rand):
    out = []
    # standard
    for v in WK + [0xFFFF000A, 0xFFFEFFFF, 0xFFFF0299, 0xFFFF029B, 0xFFFFFF00, 0xFFFFFF05, 0xFFFFFFFF, 0, 1, 0x0000FFFF, 0x00010000]:
        out.append(struct.pack('>I', v))
    for a in EDGE16:
        for t in EDGE16:
            out.append(struct.pack('>HH', a, t))
    for _ in range(n_rand):
        k = rng.below(4)
        if k == 0:
            out.append(struct.pack('>HH', 0xFFFF, rng.below(65536)))
        elif k == 1:
            out.append(struct.pack('>HH', rng.choice(EDGE16), rng.below(65536)))
        else:
            out.append(rng.bytes(4))
    # extended: every type octet, interesting subtypes
    for t in range(256):
        for st in (0, 1, 2, 3, 4, 0x0b, rng.below(256)):
            k = rng.below(5)
            if k == 0:
                v = rng.bytes(6)
            elif k == 1:
                v = struct.pack('>HI', rng.choice(EDGE16), rng.choice(EDGE32))
            elif k == 2:
                v = struct.pack('>IH', rng.choice(EDGE32), rng.choice(EDGE16))
            elif k == 3:
                v = bytes(rng.choice([0, 1, 9, 10, 99, 100, 199, 200, 255]) for _ in range(4)) + struct.pack('>H', rng.choice(EDGE16))
            else:
                v = bytes(6)
            out.append(bytes([t, st]) + v)
    for t in (0, 1, 2):
        for st in (2, 3):
            for g in EDGE32:
                out.append(bytes([t, st]) + struct.pack('>IH', g, rng.choice(EDGE16)))
                out.append(bytes([t, st]) + struct.pack('>HI', rng.choice(EDGE16), g))
    out.append(bytes(8))
    out.append(bytes(7) + b'\x01')
    out.append(bytes(4) + b'\xff\xff\xff\xff')
    for _ in range(n_rand):
        out.append(bytes([rng.choice([0, 1, 2, 3, 0x40, 0x41, 0x42, 0x43, rng.below(256)]), rng.choice([2, 3, rng.below(256)])]) + rng.bytes(6))
    # large
    for g in EDGE32:
        for l1 in (0, 65536, 4294967295):
            out.append(struct.pack('>III', g, l1, rng.choice(EDGE32)))
    for _ in range(n_rand):
        out.append(struct.pack('>III', rng.choice(EDGE32 + [rng.below(1 << 32)]), rng.below(1 << 32), rng.choice(EDGE32 + [rng.below(1 << 32)])))
    # ipv6 extended: every type octet
    for t in range(256):
        for st in (0, 2, 3, rng.below(256)):
            out.append(bytes([t, st]) + rng.bytes(18))
    out.append(bytes(20))
    out.append(bytes(15) + b'\x01' + bytes(4))
    out.append(bytes(12) + rng.bytes(8))
    out.append(bytes(16) + rng.bytes(4))
    for _ in range(n_rand // 2):
        out.append(rng.bytes(20))
    return out


NAMES = ['GRACEFUL_SHUTDOWN', 'ACCEPT_OWN', 'ROUTE_FILTER_TRANSLATED_v4', 'ROUTE_FILTER_v4', 'ROUTE_FILTER_TRANSLATED_v6',
         'ROUTE_FILTER_v6', 'LLGR_STALE', 'NO_LLGR', 'accept-own-nexthop', 'ACCEPT_OWN_NEXTHOP', 'Standby PE', 'standby-pe',
         'NO_EXPORT', 'NO_ADVERTISE', 'NO_EXPORT_SUBCONFED', 'NOPEER', 'NO_PEER', 'BLACKHOLE',
         'GracefulShutdown', 'AcceptOwn', 'RouteFilterTranslatedV4', 'RouteFilterV4', 'RouteFilterTranslatedV6', 'RouteFilterV6',
         'LlgrStale', 'NoLlgr', 'AcceptOwnNexthop', 'StandbyPe', 'NoExport', 'NoAdvertise', 'NoExportSubconfed', 'NoPeer',
         'Blackhole', 'Unrecognized', 'no-export', 'NO EXPORT', 'standby pe', 'STANDBY_PE']
POOL = ':+-xXAaSs0159 rtoRT._fFgG'


def gen_text(rng, n_rand):
    out = list(NAMES) + [n.lower() for n in NAMES] + [n.upper() for n in NAMES]
    num16 = [str(x) for x in EDGE16] + ['65536', '00', '007', '+5', '-5', '', '+', '99999999999999999999', ' 1', '1 ']
    num32 = [str(x) for x in EDGE32] + ['4294967296', '00', '+7', '', '18446744073709551616']
    for a in num16:
        for pre in ('', 'AS', 'as', 'As', 'aS', 'ASN', 'A'):
            out.append('%s%s:%s' % (pre, a, rng.choice(num16)))
    for a in num32:
        out.append('%s:%s:%s' % (rng.choice(['', 'AS', 'as']) + a, rng.choice(num32), rng.choice(num32)))
    out += ['1:2:3:4', '1:2', '1::3', ':1:2', '1:2:', 'AS:1:2', '::', ':', '', 'rt', 'rt:', 'rt::', 'ro:1', 'rt:1:2:3', 'RT:1:2', 'Rt:1:2',
            'rt:AS1:2', 'ro:as70000:3', 'rt:65535:4294967295', 'rt:65536:65535', 'rt:65536:65536', 'rt:4294967295:1', 'rt:4294967296:1',
            'rt:1.2.3.4:5', 'ro:255.255.255.255:65535', 'rt:256.1.1.1:1', 'rt:01.2.3.4:5', 'rt:1.2.3:5', 'rt:1.2.3.4.5:5', 'rt:1.2.3.4:65536',
            'rt:0.0.0.0:0', 'rt:1.2.3.04:1', 'rt:1.2.3.4', 'rt:+1.2.3.4:1', 'rt:AS1.2.3.4:1', 'rt:1..3.4:1', 'rt:1.2.3.1000:1',
            'xx:1:2', 'rt:abc:1', 'rt:1:abc']
    for n in (0, 1, 2, 7, 8, 9, 15, 16, 17, 39, 40, 41):
        for pre in ('0x', '0X', 'x', '0x+', '0x-'):
            h = ''.join(rng.choice('0123456789abcdefABCDEF') for _ in range(n))
            out.append(pre + h)
            out.append(pre + '0' * n)
            out.append(pre + ('0' * (n - 1) + '1' if n else ''))
            out.append(pre + 'f' * n)
    out += ['0x' + 'g' * 8, '0x' + '0' * 16 + 'zz' + '0' * 22, '0x' + '1' * 16 + '+' + '1' * 23, '0x' + '0' * 32 + '+0000000',
            '0x+' + '0' * 39, '0x' + '+' + '1' * 15 + '+' + '1' * 15 + '+' + '1' * 7]
    base = list(out)
    for _ in range(n_rand):
        s = rng.choice(base)
        if not s:
            continue
        k = rng.below(3)
        i = rng.below(len(s))
        c = rng.choice(POOL)
        if k == 0:
            s = s[:i] + c + s[i + 1:]
        elif k == 1:
            s = s[:i] + c + s[i:]
        else:
            s = s[:i] + s[i + 1:]
        out.append(s)
    return out


def kv(line):
    p = line.split()
    d = {'_k': p[0], '_h': p[1], '_kind': p[2]}
    for x in p[3:]:
        if '=' in x:
            a, b = x.split('=', 1)
            d[a] = b
    return d


def oracle_raw(ctx, line):
    """the property, stated directly on one implementation observation"""
    d = kv(line)
    h = d['_h']
    raw = bytes.fromhex(h)

    def bad(what):
        ctx.violation(what, case='R ' + h, impl=line)
    if d['_kind'] == 'PANIC':
        return bad('a community operation panicked')
    if d.get('raw') != h or d.get('raw2') != h:
        bad('from_raw / to_raw is not the identity')
    if d.get('same') != '1':
        bad('Community and the typed value print differently')
    kind = d['_kind']
    if kind == 'std':
        n = struct.unpack('>I', raw)[0]
        wk, res, priv = d['wk'] == '1', d['res'] == '1', d['priv'] == '1'
        if wk + res + priv != 1:
            bad('a standard community is not in exactly one of well-known / reserved / private')
        if wk != (n >> 16 == 0xFFFF) or res != (n >> 16 == 0):
            bad('classification does not follow the first two octets')
        if d['parse'] != h:
            bad('the text of a standard community does not parse back to it')
        if d['comm'] != 'std:' + h:
            bad('Community::from_str of the text of a standard community gives another community')
        if wk:
            if d['towk'] != str(n) or d['asn'] != '-' or d['tag'] != '-':
                bad('well-known value: to_wellknown / asn / tag are wrong')
        elif d['towk'] != '-' or d['asn'] != str(n >> 16) or d['tag'] != str(n & 0xFFFF):
            bad('asn / tag do not decompose the value')
    elif kind == 'ext':
        t, st = raw[0], raw[1]
        exp_t = NAMED_TYPES.get(t, 'OtherType(%d)' % t)
        if t in (0, 1, 2) and st == 2 or (t == 0x43 and st == 2):
            exp_s = 'RouteTarget'
        elif t in (0, 1, 2) and st == 3:
            exp_s = 'RouteOrigin'
        elif t in NAMED_TYPES:
            exp_s = 'OtherSubType(%d)' % st
        else:
            exp_s = 'OtherSubType(%d)' % t      # the catch-all arm repeats the type octet
        if d['type'] != exp_t or d['sub'] != exp_s:
            bad('type / subtype do not follow the first two octets')
        if (d['trans'] == '1') != (t & 0x40 == 0):
            bad('transitivity does not follow bit 0x40 of the type octet')
        rtro = t in (0, 1, 2) and st in (2, 3)
        as4 = struct.unpack('>I', raw[2:6])[0]
        claimed = (not rtro and not (t == 0x43 and st == 2)) or (rtro and (t != 2 or as4 > 65535))
        if claimed:
            if d['parse'] != h:
                bad('the text of an extended community does not parse back to it')
            if d['comm'] != 'ext:' + h:
                bad('Community::from_str of the text of an extended community gives another community')
    elif kind == 'large':
        g, l1, l2 = struct.unpack('>III', raw)
        if (d['g'], d['l1'], d['l2']) != (str(g), str(l1), str(l2)):
            bad('large community accessors do not decompose the value')
        if d['parse'] != h or d['comm'] != 'large:' + h:
            bad('the text of a large community does not parse back to it')
    elif kind == 'v6':
        if (d['trans'] == '1') != (raw[0] & 0x40 == 0):
            bad('transitivity does not follow bit 0x40 of the type octet')
        if d['disp'] != '?':
            if d['parse'] != h:
                bad('the hexadecimal text of an IPv6 extended community does not parse back to it')
            if d['comm'] != 'v6:' + h:
                bad('Community::from_str of the text of an IPv6 extended community gives another community')
    else:
        bad('unexpected observation')


def run(ctx):
    d = core.case_dir('C19')
    rng = core.SplitMix(ctx.seed)
    n_rand = 3000 if ctx.tier == 'quick' else 200000
    raws = gen_raw(rng, n_rand)
    texts = gen_text(rng, n_rand)
    path = os.path.join(d, 'cases.txt')
    with open(path, 'w') as f:
        for r in raws:
            f.write('R %s\n' % r.hex())
        for t in texts:
            f.write('S %s\n' % (t.encode('ascii').hex() or '-'))
    impl, _ = core.run_tool_sharded(ctx.harness, ['c19', 'obs'], path)
    impl = [l for l in impl if l]
    if ctx.model:
        model, _ = core.run_tool_sharded(ctx.model, ['c19', 'obs'], path)
        for k, a, b in core.diff_lines(model, impl, limit=10):
            case = b.split()[:2] if b != '<missing>' else a.split()[:2]
            txt = ''
            if case and case[0] == 'S' and case[1] != '-':
                txt = bytes.fromhex(case[1]).decode('ascii', 'replace')
            ctx.violation('model and implementation disagree on a community', case=' '.join(case), text=txt, model=a, impl=b)
    for l in impl:
        if l.startswith('R '):
            oracle_raw(ctx, l)
        elif ' PANIC' in l:
            ctx.violation('parsing a text panicked', case=' '.join(l.split()[:2]), impl=l)
    # the standard-community part of the property on the real crate: stratified (quick) or all 2^32 values (thorough)
    if ctx.tier == 'quick':
        ranges = [(0, 1 << 17), (0xFFFE0000, 1 << 32), (0x7FFF0000, 0x80010000), (0x00090000, 0x000B0000), (0x03E70000, 0x03E90000)]
        exe = ctx.harness
    else:
        step = 1 << 28
        ranges = [(i, i + step) for i in range(0, 1 << 32, step)]
        exe = core.build_harness(release=True)
    procs = [subprocess.Popen([exe, 'c19', 'sweep', str(lo), str(hi)], stdout=subprocess.PIPE) for lo, hi in ranges]
    swept = 0
    tot = {'wk': 0, 'res': 0, 'priv': 0}
    for p, (lo, hi) in zip(procs, ranges):
        out = p.communicate()[0].decode()
        if p.returncode != 0:
            raise CheckFailure('corr', 'observe c19 sweep %d %d exited %d' % (lo, hi, p.returncode))
        for l in out.split('\n'):
            if l.startswith('SWEEPBAD '):
                ctx.violation('a standard community breaks the property: ' + l.split()[2], case='R ' + l.split()[1], impl=l)
            elif l.startswith('SWEEP '):
                swept += hi - lo
                for x in l.split()[4:]:
                    k, v = x.split('=')
                    tot[k] += int(v)
    kinds = {}
    for l in impl:
        if l.startswith('R '):
            k = l.split()[2]
            kinds[k] = kinds.get(k, 0) + 1
    s_ok = sum(1 for l in impl if l.startswith('S ') and not l.endswith('comm=ERR'))
    ctx.coverage.update({
        'evaluations': len(impl) + swept,
        'distinct_nontrivial': len(set(l.split(' ', 2)[2] for l in impl if l.startswith('S ') and not l.endswith('comm=ERR')))
                               + len(set(l.split()[5] for l in impl if l.startswith('R '))),
        'rule': 'correspondence: every raw value and text through model and implementation, full observation lines compared; '
                'non-trivial = distinct printed texts (raw cases) + distinct results of accepted texts; oracle: the property on each '
                'implementation line; sweep: raw identity, text round trip (typed and through Community), partition and accessors for '
                'every standard community of the listed ranges (%s)' % ('all 2^32' if ctx.tier != 'quick' else 'stratified'),
        'exhaustive': ctx.tier != 'quick',
        'input_distribution': {'raw_by_kind': kinds, 'texts': len(texts), 'texts_accepted_by_Community': s_ok,
                               'std_swept': swept, 'std_swept_classes': tot, 'ext_type_octets': 256, 'v6_type_octets': 256},
    })
    ctx.samples = [l for l in impl if l.startswith('R ffff029a')][:1] + [l for l in impl if l.startswith('R 0202')][:1] + \
                  [l for l in impl if l.startswith('S ') and 'comm=large' in l][:1] + [l for l in impl if l.startswith('S ') and 'comm=ext' in l][:1]


def replay(ctx, path):
    run(ctx)
