"""C03 - OPEN, NOTIFICATION, KEEPALIVE, ROUTE-REFRESH decode faithfully and totally."""
import os
import struct
from lib import core

GENERATORS = ['caps', 'enums']
TRUSTED_BASE = [
    'Coq 8.16.1 kernel (coqc); no axioms',
    'hand-written Model/OpenMsg.v (OpenMessage::check, accessors with their unwrap()/index sites, NOTIFICATION / KEEPALIVE / '
    'ROUTE-REFRESH decoders, Message::from_octets dispatch, the three builders); capability content rules generated from '
    'Capability::parse (tools/gen_caps.py, arms recognised by hash), mirrored function bodies pinned by hash; tied by the correspondence run',
    'extraction: ExtrOcamlBasic only; ocaml/c03.ml, harness/src/c03.rs; the Python reference OPEN encoder in props/c03.py (generator / oracle)',
]
ASSUMPTIONS = [
    'the builders are modelled for a debug build (u8/u16 overflow = panic); K3 records that OpenBuilder overflows above 253 octets of capabilities',
]

MARKER = b'\xff' * 16


def hdr(length, typ):
    return MARKER + struct.pack('>HB', length & 0xffff, typ)


def valid_cap_value(code, rng):
    """a value that satisfies Capability::parse for this code"""
    r = lambda n: bytes(rng.below(256) for _ in range(n))
    if code == 1:
        return struct.pack('>HBB', rng.choice([1, 2, 25]), 0, rng.choice([1, 2, 4, 128, 133, 65, 70])) + (r(rng.below(3)) if rng.chance(1, 8) else b'')
    if code in (2, 6, 70, 128):
        return b''
    if code in (3, 130):
        n = rng.below(4)
        return r(4) + bytes([n]) + r(2 * n) + (r(rng.below(3)) if rng.chance(1, 6) else b'')
    if code == 5:
        return r(6 * rng.below(4))
    if code == 8:
        return r(4 * rng.below(4))
    if code == 9:
        return r(1)
    if code == 64:
        return r(2 + 4 * rng.below(4))
    if code == 65:
        return r(4)
    if code in (66, 67):
        return r(rng.below(6))
    if code in (68, 131):
        return r(1 + rng.below(5))
    if code == 69:
        return b''.join(struct.pack('>HBB', rng.choice([1, 2]), rng.choice([1, 2, 4, 128]), rng.choice([1, 2, 3])) for _ in range(1 + rng.below(4)))
    if code == 71:
        return r(7 * rng.below(4))
    if code == 73:
        a, b = rng.below(6), rng.below(6)
        return bytes([a]) + r(a) + bytes([b]) + r(b)
    if code in (75, 76):
        a = rng.below(10)
        return bytes([a]) + r(a)
    return r(rng.below(8))


def adversarial_cap(rng):
    """(code, value) of a capability whose inner count / length fields sit at their extremes or disagree with the octets present:
    what a decoder's arithmetic on those fields has to survive"""
    r = lambda n: bytes(rng.below(256) for _ in range(n))
    code = rng.choice([1, 3, 130, 5, 8, 64, 65, 67, 68, 69, 71, 73, 75, 76, 131, 9])
    if code in (3, 130):
        cnt = rng.choice([0, 1, 2, 3, 63, 64, 127, 128, 129, 200, 254, 255])
        present = rng.choice([0, 1, 2, 3, cnt if cnt < 100 else 3])
        return code, struct.pack('>HBB', rng.choice([1, 2]), 0, rng.choice([1, 2, 128])) + bytes([cnt]) + r(2 * present) + r(rng.choice([0, 0, 1]))
    if code == 73:
        a = rng.choice([0, 1, 5, 127, 128, 250, 255])
        host = r(min(a, rng.choice([0, 1, 5, 250])))
        b = rng.choice([0, 1, 5, 128, 255])
        dom = r(min(b, rng.choice([0, 1, 5])))
        return code, bytes([a]) + host + (bytes([b]) + dom if rng.chance(3, 4) else b'')
    if code in (75, 76):
        a = rng.choice([0, 1, 9, 127, 128, 254, 255])
        return code, bytes([a]) + r(min(a, rng.choice([0, 1, 9, 250])))
    if code == 69:
        n = rng.choice([1, 2, 3, 63])
        v = b''.join(struct.pack('>HBB', rng.choice([0, 1, 2, 65535]), rng.choice([0, 1, 128, 255]), rng.choice([0, 1, 2, 3, 4, 255])) for _ in range(n))
        return code, (v + r(rng.choice([0, 0, 1, 3])))[:255]
    k = {1: 4, 5: 6, 8: 4, 64: 4, 65: 4, 67: 1, 68: 1, 71: 7, 131: 1, 9: 1}[code]
    base = {64: 2}.get(code, 0)
    return code, r(max(0, base + k * rng.choice([0, 1, 2, 36]) + rng.choice([-1, 0, 0, 1, 2, 3])) % 256)


def encode_open(ver, asn, hold, ident, params, length_override=None):
    """params: list of ('caps', [(code, value)]) or ('raw', typ, value)"""
    pb = b''
    for p in params:
        if p[0] == 'caps':
            v = b''.join(bytes([c, len(val)]) + val for c, val in p[1])
            pb += bytes([2, len(v)]) + v
        else:
            pb += bytes([p[1], len(p[2])]) + p[2]
    body = bytes([ver]) + struct.pack('>HH', asn, hold) + ident + bytes([len(pb)]) + pb
    total = 19 + len(body)
    return hdr(total if length_override is None else length_override, 1) + body


def gen(ctx):
    rng = core.SplitMix(ctx.seed)
    lines = []
    meta = []

    def add(kind, text, m=None):
        lines.append('%s %d %s' % (kind, len(lines), text) if text else '%s %d' % (kind, len(lines)))
        meta.append((kind, m))
    quick = ctx.tier == 'quick'
    # 1. every capability code x every length 0..=20, alone in one parameter
    for code in range(256):
        for ln in range(21):
            v = bytes(rng.below(256) for _ in range(ln))
            if code == 69 and ln >= 4:
                v = v[:3] + bytes([rng.below(5)]) + v[4:]
            add('OPEN', encode_open(4, 65000, 90, b'\x0a\x00\x00\x01', [('caps', [(code, v)])]).hex(), ('single', code, v))
    # 1b. capabilities whose inner count / length fields are at their extremes or disagree with what is there
    for _ in range(600 if quick else 20000):
        c, v = adversarial_cap(rng)
        if len(v) > 250:
            continue
        add('OPEN', encode_open(4, 65000, 90, b'\x0a\x00\x00\x01', [('caps', [(c, v)])]).hex(), ('single', c, v))
    # 2. structured valid OPENs
    n = 1500 if quick else 60000
    codes = [0, 1, 2, 3, 5, 6, 8, 9, 64, 65, 66, 67, 68, 69, 70, 71, 73, 75, 76, 128, 130, 131, 4, 7, 10, 63, 72, 74, 77, 129, 200, 255]
    for _ in range(n):
        params = []
        total = 0
        for _ in range(rng.below(5)):
            if rng.chance(1, 5):
                v = bytes(rng.below(256) for _ in range(rng.below(6)))
                p = ('raw', rng.choice([0, 1, 3, 100, 254, 255]), v)
                sz = 2 + len(v)
            else:
                caps = []
                for _ in range(1 + rng.below(4) if rng.chance(3, 4) else 0):
                    c = rng.choice([1, 1, 65, 69, 2] + codes)
                    caps.append((c, valid_cap_value(c, rng)))
                p = ('caps', caps)
                sz = 2 + sum(2 + len(v) for _, v in caps)
                if sz - 2 > 255:
                    continue
            if total + sz > 255:
                break
            total += sz
            params.append(p)
        f = (rng.choice([4, 3, 0, 255]) if rng.chance(1, 6) else 4, rng.choice([0, 1, 23456, 64496, 65535]), rng.below(65536), bytes(rng.below(256) for _ in range(4)))
        add('OPEN', encode_open(f[0], f[1], f[2], f[3], params).hex(), ('valid', f, params))
    # 3. malformed: wrong header length, truncations, trailing octets, mutated octets, random octets
    # every length field consistent, but the optional-parameter area does not end on a parameter boundary: 0..3 complete
    # parameters followed by one stray octet, or by a type / length pair whose value is cut short
    for _ in range(60 if quick else 2000):
        caps = [(c, valid_cap_value(c, rng)) for c in [rng.choice(codes) for _ in range(rng.below(4))]]
        pb = b''.join(bytes([2, 2 + len(v), c, len(v)]) + v for c, v in caps)
        tail = rng.choice([bytes([rng.choice([0, 1, 2, 255])]), bytes([2, 3, 65]), bytes([2, 6, 65, 4, 0, 0]), bytes([2, 1])])
        if len(pb) + len(tail) > 255:
            continue
        body = bytes([4]) + struct.pack('>HH', 64496, 180) + b'\x01\x02\x03\x04' + bytes([len(pb) + len(tail)]) + pb + tail
        add('OPEN', (hdr(19 + len(body), 1) + body).hex(), ('mal',))
        add('MSG', (hdr(19 + len(body), 1) + body).hex(), ('mal',))
    for _ in range(800 if quick else 30000):
        params = [('caps', [(c, valid_cap_value(c, rng)) for c in [rng.choice(codes) for _ in range(rng.below(4))]])]
        if sum(2 + len(v) for _, v in params[0][1]) > 250:
            continue
        b = bytearray(encode_open(4, 64496, 180, b'\x01\x02\x03\x04', params))
        k = rng.below(6)
        if k == 0:
            b = b[:rng.below(len(b) + 1)]
        elif k == 1:
            b += bytes(rng.below(256) for _ in range(1 + rng.below(3)))
        elif k == 2:
            b[16:18] = struct.pack('>H', rng.choice([0, 18, 19, 28, 29, len(b) - 1, len(b) + 1, 4096, 65535]))
        elif k == 3:
            for _ in range(1 + rng.below(3)):
                b[rng.below(len(b))] = rng.below(256)
        elif k == 4:
            i = 19 + rng.below(max(1, len(b) - 19))
            b[i] = rng.choice([0, 1, 2, 255, 254, 4])
        else:
            b = bytearray(bytes(rng.below(256) for _ in range(rng.below(60))))
        add('OPEN', bytes(b).hex() or '-', ('mal',))
        if rng.chance(1, 4):
            add('MSG', bytes(b).hex() or '-', ('mal',))
    # 4. NOTIFICATION
    for code in list(range(0, 9)) + [rng.below(256) for _ in range(8)]:
        for sub in [0, 1, 2, 5, 11, rng.below(256)]:
            for dl in [0, 1, 2, 7, 64]:
                data = bytes(rng.below(256) for _ in range(dl))
                add('NOTIF', (hdr(21 + dl, 3) + bytes([code, sub]) + data).hex(), ('notif', code, sub, data))
            add('NB', '%d %d %s' % (code, sub, rng.choice(['none', bytes(rng.below(256) for _ in range(rng.below(9))).hex() or 'none'])), ('nb', code, sub))
    for total, claimed in [(19, 19), (20, 20), (21, 21), (19, 21), (20, 21), (21, 20), (22, 21), (18, 18), (0, 0), (21, 22), (30, 21)]:
        b = (MARKER + struct.pack('>HB', claimed, 3) + bytes([6, 2]) + b'\x00' * 12)[:total]
        add('NOTIF', b.hex() or '-', ('notif-short', total, claimed))
        add('MSG', b.hex() or '-', ('mal',))
    # 5. KEEPALIVE / ROUTE-REFRESH / dispatch
    for total, claimed in [(19, 19), (19, 20), (20, 20), (20, 19), (18, 18), (23, 19), (0, 0)]:
        b = (MARKER + struct.pack('>HB', claimed, 4) + b'\x00' * 8)[:total]
        add('KEEP', b.hex() or '-', ('keep', total, claimed))
        add('MSG', b.hex() or '-', ('mal',))
    add('KEEP', (b'\xfe' + MARKER[1:] + struct.pack('>HB', 19, 4)).hex(), ('keep', 19, -1))
    for _ in range(60):
        afi, sub, safi = rng.choice([1, 2, 25, 77]), rng.choice([0, 1, 2, 9, 255]), rng.choice([1, 2, 4, 128, 70, 200])
        add('RR', (hdr(23, 5) + struct.pack('>HBB', afi, sub, safi)).hex(), ('rr', afi, sub, safi))
    for total, claimed in [(23, 23), (23, 24), (24, 23), (22, 23), (22, 22), (27, 27), (19, 19)]:
        b = (MARKER + struct.pack('>HB', claimed, 5) + b'\x00\x01\x00\x01' + b'\x00' * 8)[:total]
        add('RR', b.hex() or '-', ('rr-size', total, claimed))
    for t in range(0, 8):
        add('MSG', (hdr(19, t)).hex(), ('mal',))
        add('MSG', (hdr(29, t) + bytes([4, 0xfb, 0xf0, 0, 90, 1, 2, 3, 4, 0])).hex(), ('mal',))
    add('KB', '', ('kb',))
    # the builder on a target that is not empty (a reused buffer: the last KEEPALIVE, an OPEN, a few stray octets)
    for stale in (MARKER + struct.pack('>HB', 19, 4), MARKER + struct.pack('>HB', 29, 1) + bytes(10), bytes(3), b'\xff' * 40):
        add('KB', stale.hex(), ('kb',))
    # 6. OpenBuilder scripts
    for _ in range(400 if quick else 20000):
        ops = []
        exp = {'asn': 0, 'hold': 0, 'id': b'\x00' * 4, 'four': None, 'mp': [], 'ap': [], 'size': 0}
        for _ in range(rng.below(8)):
            k = rng.choice(['asn', 'hold', 'id', 'cap', 'four', 'mp', 'mp', 'ap', 'ap'])
            if k == 'asn':
                a = rng.choice([0, 1, 65535, 65536, 4200000000])
                ops.append('asn=%d' % a); exp['asn'] = a if a < 65536 else 23456
            elif k == 'hold':
                h = rng.below(65536); ops.append('hold=%d' % h); exp['hold'] = h
            elif k == 'id':
                i = bytes(rng.below(256) for _ in range(4)); ops.append('id=%s' % i.hex()); exp['id'] = i
            elif k == 'cap':
                c = rng.choice([2, 6, 70, 9, 64, 73, 200])
                v = valid_cap_value(c, rng)
                ops.append('cap=%s' % (bytes([c, len(v)]) + v).hex()); exp['size'] += 2 + len(v)
            elif k == 'four':
                a = rng.choice([1, 65536, 4200000000]); ops.append('four=%d' % a)
                exp['size'] += 6
                if exp['four'] is None:
                    exp['four'] = a
            elif k == 'mp':
                f = (rng.choice([1, 2, 25]), rng.choice([1, 2, 4, 128, 70])); ops.append('mp=%d.%d' % f); exp['mp'].append(f); exp['size'] += 6
            else:
                f = (rng.choice([1, 2]), rng.choice([1, 2, 4]), rng.choice([1, 2, 3])); ops.append('ap=%d.%d.%d' % f); exp['ap'].append(f)
        if rng.chance(1, 8):
            # land on and around the 253-octet limit with 6-octet MP capabilities and a filler
            k = rng.choice([40, 41, 42, 43, 64])
            for i in range(k):
                ops.append('mp=1.%d' % (1 + i % 4)); exp['mp'].append((1, 1 + i % 4)); exp['size'] += 6
            fill = rng.choice([0, 1, 2, 3, 4, 5, 7])
            if fill >= 2:
                ops.append('cap=%s' % (bytes([200, fill - 2]) + bytes(fill - 2)).hex()); exp['size'] += fill
        if rng.chance(1, 20):
            for i in range(rng.choice([62, 63, 64, 70])):
                ops.append('ap=1.1.3'); exp['ap'].append((1, 1, 3))
        if exp['ap']:
            exp['size'] += 2 + 4 * len(exp['ap'])
        add('OB', ';'.join(ops), ('ob', exp))
    return lines, meta


def fields(l):
    return dict(x.split('=', 1) for x in l.split(' ')[3:] if '=' in x)


def run(ctx):
    d = core.case_dir('C03')
    lines, meta = gen(ctx)
    path = os.path.join(d, 'cases.txt')
    with open(path, 'w') as f:
        f.write('\n'.join(lines) + '\n')
    impl, _ = core.run_tool(ctx.harness, ['c03', path], timeout=3000)
    impl = [l for l in impl if l]
    by = {int(l.split(' ')[1]): l for l in impl}
    stats = {'accepted': 0, 'rejected': 0, 'builder_ok': 0, 'k3': 0}
    stage2 = []
    for i, (kind, m) in enumerate(meta):
        if len(ctx.violations) > 8:
            break
        l = by.get(i)
        if l is None:
            ctx.violation('no result from the implementation harness', case=lines[i][:300])
            continue
        body = l.split(' ', 2)[2] if l.count(' ') >= 2 else ''

        def viol(what, **kw):
            ctx.violation(what, case=lines[i][:500], impl=l[:400], **kw)
        if 'PANIC' in body:
            if kind == 'OB' and (m[1]['size'] > 253 or len(m[1]['ap']) > 63):
                stats['k3'] += 1
                ctx.known_hit('K3', 'OB %d: OpenBuilder::finish with %d octets of capabilities / %d ADD-PATH families panics' % (i, m[1]['size'], len(m[1]['ap'])))
            else:
                viol('decoding, an accessor of an accepted message, or a builder panicked')
            continue
        if kind == 'OPEN':
            fl = fields(l)
            raw = bytes.fromhex(lines[i].split(' ')[2]) if lines[i].split(' ')[2] != '-' else b''
            if body.startswith('ok'):
                stats['accepted'] += 1
                if int(fl['len']) != len(raw):
                    viol('an OPEN whose header length disagrees with the octets supplied was accepted')
            else:
                stats['rejected'] += 1
            if m[0] == 'valid':
                f, params = m[1], m[2]
                if not body.startswith('ok'):
                    viol('a well-formed OPEN was rejected'); continue
                caps = [(c, v) for p in params if p[0] == 'caps' for c, v in p[1]]
                want_caps = '%d[%s]' % (len(caps), ','.join('%d:%s' % (c, v.hex() or '-') for c, v in caps))
                four = next((v for c, v in caps if c == 65), None)
                want = {'ver': str(f[0]), 'hold': str(f[2]), 'id': f[3].hex(), 'asn': str(int.from_bytes(four, 'big') if four is not None else f[1]),
                        'params': '%d[%s]' % (len(params), ','.join(str(2 if p[0] == 'caps' else p[1]) for p in params)),
                        'caps': want_caps, 'four': '1' if four is not None else '0',
                        'mp': '[%s]' % ','.join('%d.%d' % (int.from_bytes(v[:2], 'big'), v[3]) for c, v in caps if c == 1)}
                ap = []
                ok = True
                for c, v in caps:
                    if c == 69:
                        for j in range(0, len(v), 4):
                            ch = v[j:j + 4]
                            if len(ch) < 4 or not (1 <= ch[3] <= 3):
                                ok = False; break
                            ap.append('%d.%d:%d' % (int.from_bytes(ch[:2], 'big'), ch[2], ch[3]))
                want['ap'] = '[%s]' % ','.join(ap) if ok else 'E'
                for k, v in want.items():
                    if fl.get(k) != v:
                        viol('a well-formed OPEN is not reported as encoded: %s' % k, want=v[:200], got=fl.get(k, '')[:200]); break
        elif kind == 'NOTIF':
            if m[0] == 'notif':
                code, sub, data = m[1], m[2], m[3]
                fl = fields(l)
                want_raw = '%d,%d' % (code, 0 if code in (0, 4) else sub)
                if not body.startswith('ok') or fl.get('code') != str(code) or fl.get('data') != (data.hex() if data else 'none'):
                    viol('a well-formed NOTIFICATION is not reported as encoded')
                elif fl.get('raw') != want_raw:
                    viol('NOTIFICATION details do not re-encode to code / subcode', want=want_raw)
            else:
                total, claimed = m[1], m[2]
                if body.startswith('ok') and not (total == claimed and total >= 21):
                    viol('a NOTIFICATION shorter than 21 octets or with a wrong header length was accepted')
                if not body.startswith('ok') and total == claimed and total >= 21:
                    viol('a well-formed NOTIFICATION was rejected')
        elif kind == 'KEEP':
            good = m[1] == 19 and m[2] == 19
            if body.startswith('ok') != good:
                viol('KEEPALIVE: accepted iff it is exactly the 19 header octets with length 19')
        elif kind == 'RR':
            if m[0] == 'rr':
                want = 'ok fam=%d.%d sub=%d' % (m[1], m[3], m[2])
                if body != want:
                    viol('a well-formed ROUTE-REFRESH is not reported as encoded', want=want)
            else:
                good = m[1] == 23 and m[2] == 23
                if body.startswith('ok') != good:
                    viol('ROUTE-REFRESH of a wrong size')
        elif kind in ('OB', 'NB', 'KB'):
            if body.startswith('ok:'):
                stats['builder_ok'] += 1
                stage2.append((i, kind, m, body[3:]))
    # builders: what they produce decodes back to what they were given
    path2 = os.path.join(d, 'stage2.txt')
    with open(path2, 'w') as f:
        for j, (i, kind, m, h) in enumerate(stage2):
            f.write('%s %d %s\n' % ({'OB': 'OPEN', 'NB': 'NOTIF', 'KB': 'KEEP'}[kind], j, h))
    obs, _ = core.run_tool(ctx.harness, ['c03', path2], timeout=3000)
    ob = {int(l.split(' ')[1]): l for l in obs if l}
    for j, (i, kind, m, h) in enumerate(stage2):
        if len(ctx.violations) > 8:
            break
        l = ob.get(j, '')
        body = l.split(' ', 2)[2] if l.count(' ') >= 2 else ''
        if kind == 'OB' and (m[1]['size'] > 253 or len(m[1]['ap']) > 63):
            # K3: above the limit the u8 sums wrap (silently for `len as u8`): whatever comes out is not what was asked for
            stats['k3'] += 1
            ctx.known_hit('K3', 'OB %d: OpenBuilder::finish with %d octets of capabilities / %d ADD-PATH families' % (i, m[1]['size'], len(m[1]['ap'])))
            continue
        if not body.startswith('ok'):
            ctx.violation('a message produced by a builder does not decode', case=lines[i][:500], impl=h[:200], decoded=l[:200])
            continue
        if kind == 'OB':
            e = m[1]
            fl = fields(l)
            want = {'ver': '4', 'hold': str(e['hold']), 'id': e['id'].hex(), 'asn': str(e['four'] if e['four'] is not None else e['asn']),
                    'mp': '[%s]' % ','.join('%d.%d' % f for f in e['mp']),
                    'ap': '[%s]' % ','.join('%d.%d:%d' % f for f in e['ap'])}
            for k, v in want.items():
                if fl.get(k) != v:
                    ctx.violation('an OPEN produced by OpenBuilder does not decode back to what it was built from: %s' % k, case=lines[i][:500],
                                  want=v[:200], got=fl.get(k, '')[:200])
                    break
        elif kind == 'NB':
            fl = fields(l)
            code, sub = m[1], m[2]
            if fl.get('raw') != '%d,%d' % (code, 0 if code in (0, 4) else sub):
                ctx.violation('a NOTIFICATION produced by NotificationBuilder does not decode back', case=lines[i][:300], got=l[:200])
    if ctx.model:
        model, _ = core.run_tool(ctx.model, ['c03', path], timeout=3000)
        for k, a, b in core.diff_lines(model, impl, limit=5):
            idx = int((a if a != '<missing>' else b).split(' ')[1])
            ctx.violation('model and implementation disagree', case=lines[idx][:500], model=a[:400], impl=b[:400])
    kinds = {}
    for k, _ in meta:
        kinds[k] = kinds.get(k, 0) + 1
    ctx.coverage.update({
        'evaluations': len(lines),
        'distinct_nontrivial': len(set(lines)),
        'rule': 'every capability code 0..=255 x every length 0..=20; structured OPENs (known and unknown capability codes with legal values, '
                'one or many per parameter, non-capability parameters) from a Python reference encoder; truncated / extended / mutated / '
                'random octets and wrong header lengths; NOTIFICATIONs of many codes x subcodes x data lengths and totals 18..22; KEEPALIVE and '
                'ROUTE-REFRESH sizes; dispatch on every type; builder scripts around the 253-octet limit, decoded back in a second stage; plus '
                'model = implementation on every line',
        'input_distribution': {'kinds': kinds, **stats},
    })
    ctx.samples = [lines[0][:200], by.get(0, '')[:300]]


def replay(ctx, path):
    run(ctx)
