"""C07 - re-encoding a received UPDATE preserves its attributes and NLRI."""
import os
import struct
from lib import core, nlrienc, updenc
from lib.bgpenc import bgp_header
from props.c06 import split_msg

GENERATORS = ['attrs', 'builder', 'enums']
TRUSTED_BASE = [
    'Coq 8.16.1 kernel (coqc); no axioms',
    'hand-written Model/Attr.v (to_owned, compose), Model/Update.v (PaMap::from_update_pdu, attribute iterator), Model/Builder.v '
    '(from_update_message, add_*_from_pdu, into_message); attribute table generated (tools/gen_attrs.py), builder bodies pinned '
    '(tools/gen_builder.py); tied by the correspondence run',
    'extraction: ExtrOcamlBasic only; ocaml/c06.ml, harness/src/c06.rs + c01.rs (second stage: the rebuilt octets are decoded by the '
    'implementation again); lib/updenc.py reference encoder (generator / oracle only)',
]
ASSUMPTIONS = [
    'theorems are for messages of at most 21845 octets (3*|b| <= 65535), which covers the 4096-octet PDU limit; the re-decode uses the '
    'four-octet configuration because compose has no ASN width parameter',
    'c07_builder_partial: re-added NLRI are assumed well-formed values of the builder\'s NLRI type (checked on every generated case by the '
    'correspondence, not proved)',
]

TYPED = [1, 2, 3, 4, 5, 6, 7, 8, 9, 10, 16, 17, 18, 20, 21, 25, 32, 35, 128, 255]
BADLEN = {1: [0, 2, 3, 300], 3: [0, 3, 5, 260], 4: [0, 3, 5, 1000], 5: [2, 8, 400], 6: [1, 2, 256], 7: [0, 5, 7, 9, 300], 8: [1, 2, 3, 5, 257, 999],
          9: [3, 5], 10: [1, 6, 258], 16: [1, 7, 9, 260], 18: [7, 9, 0, 300], 20: [3, 5, 256], 21: [4, 6, 0, 500], 25: [1, 19, 21, 261],
          32: [1, 11, 13, 1000], 35: [0, 3, 5, 777], 128: [0, 1, 3], 2: [1, 3, 5, 7, 300], 17: [1, 3, 5, 7]}


def gen(ctx):
    rng = core.SplitMix(ctx.seed)
    n = 1500 if ctx.tier == 'quick' else 60000
    cases = []
    for i in range(n):
        cfg = updenc.gen_cfg(rng)
        content, exp = updenc.gen_content(rng, cfg, size=rng.choice(['small', 'normal', 'normal']))
        kind = rng.choice(['valid', 'valid', 'unknown', 'unknown', 'malformed', 'malformed', 'dup', 'badnlri', 'boundary', 'emptyreach', 'longpath'])
        attrs = list(content['attrs'])
        if kind == 'longpath':
            # an AS_PATH of more than 255 distinct ASNs in consecutive AS_SEQUENCE segments (in whatever segmentation the sender chose)
            sz = 4 if cfg['four'] else 2
            lens = rng.choice([[200, 100], [255, 255, 90], [45, 255], [255, 1], [128, 128], [255, 255]])
            k0 = 0
            v = b''
            for n in lens:
                v += bytes([2, n]) + b''.join((1000 + k0 + i).to_bytes(sz, 'big') for i in range(n))
                k0 += n
            attrs = [x for x in attrs if x[1] != 2]
            attrs.insert(rng.below(len(attrs) + 1), (updenc.CANON[2], 2, v, True))
        if kind == 'boundary':
            # a recognised attribute whose value is 252..260 octets long: the one-octet / two-octet length form changes at 255|256
            code = rng.choice([8, 8, 16, 10, 2, 32])
            sz = 4 if cfg['four'] else 2
            if code == 2:
                tot = rng.choice([256, 256, 254, 258, 252, 260]) - 4
                cnt = tot // sz
                a = 1 + rng.below(min(cnt - 1, 255))
                b = cnt - a
                if b > 255:
                    a, b = cnt - 255, 255
                v = b''.join(bytes([2, k]) + b''.join((64500 + rng.below(1000)).to_bytes(sz, 'big') for _ in range(k)) for k in (a, b))
            else:
                unit = {8: 4, 16: 8, 10: 4, 32: 12}[code]
                v = bytes(rng.below(256) for _ in range(unit * (256 // unit + rng.choice([0, 0, 0, -1, 1]))))
            attrs = [x for x in attrs if x[1] != code]
            attrs.insert(rng.below(len(attrs) + 1), (updenc.CANON[code], code, v, len(v) > 255))
        if kind == 'unknown':
            for _ in range(1 + rng.below(3)):
                code = rng.choice([11, 12, 13, 19, 22, 33, 40, 200, 254])
                flags = (rng.below(16) << 4) | (rng.below(16) if rng.chance(1, 4) else 0)
                ln = rng.choice([0, 1, 2, 7, 100, 255, 256, 257, 600, 1000])
                attrs.insert(rng.below(len(attrs) + 1), (flags & 0xef, code, bytes(rng.below(256) for _ in range(ln)), bool(flags & 0x10)))
        elif kind == 'malformed':
            for _ in range(1 + rng.below(2)):
                code = rng.choice(sorted(BADLEN))
                ln = rng.choice(BADLEN[code] + [rng.below(1001)])
                v = bytes(rng.below(256) for _ in range(ln))
                if code in (2, 17) and rng.chance(1, 2):
                    v = bytes([rng.choice([0, 5, 9]), rng.below(4)]) + v
                attrs = [a for a in attrs if a[1] != code]
                attrs.insert(rng.below(len(attrs) + 1), (updenc.CANON[code] if rng.chance(3, 4) else rng.below(16) << 4 & 0xef, code, v, rng.chance(1, 4)))
        elif kind == 'dup' and attrs:
            a = rng.choice(attrs)
            attrs.insert(rng.below(len(attrs) + 1), (a[0], a[1], a[2], a[3]))
        content['attrs'] = attrs
        if kind == 'emptyreach':
            # an MP_REACH_NLRI attribute that is there but carries no NLRI (family, next hop, reserved octet only), with nothing in
            # the conventional section - and, half of the time, an equally empty MP_UNREACH_NLRI or some withdrawals
            fam = content['reach'][0] if content['reach'] else rng.choice(nlrienc.FAMS)
            content['reach'] = (fam, bytes(rng.below(256) for _ in range(updenc.NH_LEN[fam][0])), [])
            content['ann'] = []
            if rng.chance(1, 4):
                content['unreach'] = (fam, [])
                content['wd'] = []
        if kind == 'badnlri':
            if content['reach'] is None:
                fam = rng.choice(nlrienc.FAMS)
                content['reach'] = (fam, bytes(updenc.NH_LEN[fam][0]), [])
            content['reach_garbage'] = rng.choice([b'\xff', b'\x21\x01', b'\x80', bytes([rng.below(256) for _ in range(1 + rng.below(3))])])
        msg, sec = updenc.encode(content)
        if len(msg) > 20000:
            continue
        # the NLRI type A given to the builder: the family of the message's NLRI
        fam, ap = None, False
        if content['reach']:
            fam = content['reach'][0]
        elif content['unreach']:
            fam = content['unreach'][0]
        if fam is None or ((content['ann'] or content['wd']) and rng.chance(1, 2)):
            fam = 'Ipv4Unicast'
        if rng.chance(1, 10):
            fam = rng.choice(nlrienc.FAMS)
        ap = updenc.rx(cfg, nlrienc.AFISAFI[fam])
        if rng.chance(1, 12):
            ap = not ap
        cases.append({'cfg': cfg, 'content': content, 'msg': msg, 'fam': fam, 'ap': ap, 'kind': kind})
    return cases


def split_attrs(b):
    out = []
    p = 0
    while p < len(b):
        fl, code = b[p], b[p + 1]
        if fl & 0x10:
            vl = struct.unpack('>H', b[p + 2:p + 4])[0]; h = 4
        else:
            vl = b[p + 2]; h = 3
        out.append((fl, code, b[p + h:p + h + vl], b[p:p + h + vl]))
        p += h + vl
    if p != len(b):
        raise ValueError('attribute octets do not frame')
    return out


def attr_items(line):
    """'U id attrs n[k:flags:code:len:K:code:hex:clen ...]' -> list of dicts"""
    body = line.split(' ', 3)[3]
    inner = body[body.index('[') + 1:body.rindex(']')]
    items = []
    for t in inner.split(' '):
        if not t:
            continue
        f = t.split(':')
        if len(f) < 8:
            items.append({'raw': t})
            continue
        items.append({'k': f[0], 'flags': int(f[1]), 'code': int(f[2]), 'len': int(f[3]), 'ok': f[4], 'hex': f[6], 'raw': t})
    return items


def run(ctx):
    d = core.case_dir('C07')
    cases = gen(ctx)
    path = os.path.join(d, 'cases.txt')
    texts = ['REB %d %s %s %d %s' % (i, updenc.cfg_str(c['cfg']), c['fam'], 1 if c['ap'] else 0, c['msg'].hex()) for i, c in enumerate(cases)]
    with open(path, 'w') as f:
        f.write('\n'.join(texts) + '\n')
    impl, _ = core.run_tool_sharded(ctx.harness, ['c07'], path)
    impl = [l for l in impl if l]
    by = {int(l.split(' ')[1]): l for l in impl}
    if ctx.model:
        model, _ = core.run_tool_sharded(ctx.model, ['c07'], path)
        for k, a, b in core.diff_lines(model, impl, limit=5):
            idx = int((a if a != '<missing>' else b).split(' ')[1])
            ctx.violation('model and implementation disagree', case=texts[idx][:600], model=a[:400], impl=b[:400], kind=cases[idx]['kind'])
    # second stage: decode the original and the directly re-encoded attributes with the implementation
    path2 = os.path.join(d, 'stage2.txt')
    results = {}
    with open(path2, 'w') as f:
        for i, c in enumerate(cases):
            l = by.get(i)
            if l is None:
                ctx.violation('no result from the implementation harness', case=texts[i][:300])
                continue
            fields = dict(x.split('=', 1) for x in l.split(' ')[2:] if '=' in x)
            results[i] = fields
            f.write('UPD %d %s %s\n' % (2 * i, updenc.cfg_str(c['cfg']), c['msg'].hex()))
            dr = fields.get('direct', '')
            if dr.startswith('ok:'):
                ab = bytes.fromhex(dr[3:]) if dr[3:] != '-' else b''
                body = b'\x00\x00' + struct.pack('>H', len(ab)) + ab
                f.write('UPD %d 1 - %s\n' % (2 * i + 1, (bgp_header(19 + len(body), 2) + body).hex()))
    obs, _ = core.run_tool(ctx.harness, ['c01', path2], timeout=3000)
    attrs_line, typed_line = {}, {}
    for l in obs:
        f = l.split(' ', 3)
        if len(f) >= 3 and f[2] == 'attrs':
            attrs_line[int(f[1])] = l
        elif len(f) >= 3 and f[2] == 'typed':
            typed_line[int(f[1])] = l.split(' ', 3)[3]
    stats = {'kinds': {}, 'unknown_attrs': 0, 'invalid_attrs': 0, 'builder_ok': 0, 'builder_checked': 0}
    for i, c in enumerate(cases):
        if len(ctx.violations) > 8:
            break
        stats['kinds'][c['kind']] = stats['kinds'].get(c['kind'], 0) + 1
        r = results.get(i)
        if r is None:
            continue

        def viol(what, **kw):
            ctx.violation(what, case=texts[i][:600], impl=by[i][:400], kind=c['kind'], **kw)
        if r.get('parse') in ('E', 'PANIC'):
            viol('a generated message was not accepted')
            continue
        for route in ('direct', 'pamap'):
            if not r.get(route, '').startswith('ok:'):
                viol('re-encoding the attributes (%s) failed: %s' % (route, r.get(route)))
        if not r.get('direct', '').startswith('ok:'):
            continue
        o, n = attrs_line.get(2 * i), attrs_line.get(2 * i + 1)
        if o is None or n is None:
            viol('the re-encoded attributes are not accepted by the decoder')
            continue
        oi, ni = attr_items(o), attr_items(n)
        if len(oi) != len(ni):
            viol('the re-encoded attributes decode to %d attributes instead of %d' % (len(ni), len(oi)))
            continue
        has_invalid = False
        for a, b in zip(oi, ni):
            if 'k' not in a or 'k' not in b:
                viol('an attribute item is an error', orig=a['raw'][:120], again=b['raw'][:120]); break
            if a['code'] != b['code']:
                viol('type code changed', orig=a['raw'][:120], again=b['raw'][:120]); break
            ext = 0x10 if b['len'] > 255 else 0
            if a['k'] == 'T':
                if b['k'] != 'T' or a['hex'] != b['hex']:
                    viol('a recognised attribute decodes to a different value after re-encoding', orig=a['raw'][:200], again=b['raw'][:200]); break
                if b['flags'] != (updenc.CANON[a['code']] | ext):
                    viol('a recognised attribute is not written with its canonical flags', orig=a['raw'][:120], again=b['raw'][:120]); break
            elif a['k'] == 'U':
                stats['unknown_attrs'] += 1
                if b['k'] != 'U' or b['len'] != a['len']:
                    viol('an unrecognised attribute changed', orig=a['raw'][:200], again=b['raw'][:200]); break
                if b['flags'] != (((a['flags'] | 0x20) & 0xef) | ext):
                    viol('flags of an unrecognised attribute: expected received O/T bits + PARTIAL', orig=a['raw'][:120], again=b['raw'][:120]); break
                va = split_attrs(bytes.fromhex(a['hex']))[0][2]
                vb = split_attrs(bytes.fromhex(b['hex']))[0][2]
                if va != vb:
                    viol('value octets of an unrecognised attribute changed', orig=a['raw'][:200], again=b['raw'][:200]); break
            else:
                stats['invalid_attrs'] += 1
                has_invalid = True
                va = split_attrs(bytes.fromhex(a['hex']))[0][2]
                vb = split_attrs(bytes.fromhex(b['hex']))[0][2]
                if va != vb or b['len'] != a['len']:
                    viol('value octets of a malformed attribute changed', orig=a['raw'][:200], again=b['raw'][:200]); break
        else:
            # the value octets the decoder saw in the original message, against the received octets
            orig = split_attrs(bytes(updenc.encode(c['content'])[0][23 + struct.unpack('>H', c['msg'][19:21])[0]:][:struct.unpack('>H', c['msg'][21 + struct.unpack('>H', c['msg'][19:21])[0]:23 + struct.unpack('>H', c['msg'][19:21])[0]])[0]]))
            for (fl, code, v, _), a in zip(orig, oi):
                if a['k'] in ('U', 'I') and split_attrs(bytes.fromhex(a['hex']))[0][2] != v:
                    viol('an unrecognised / malformed attribute does not keep its received value octets', orig=a['raw'][:200]); break
            if not has_invalid and typed_line.get(2 * i) != typed_line.get(2 * i + 1) and c['cfg']['four']:
                viol('typed attribute values differ after re-encoding', orig=typed_line.get(2 * i, '')[:300], again=typed_line.get(2 * i + 1, '')[:300])
            # through the map: first attribute per code (RFC 7606 3.g), ascending, without the MP attributes
            exp = {}
            for a in oi:
                if a['code'] not in (14, 15) and a['code'] not in exp:
                    exp[a['code']] = a['hex']
            want = ''.join(exp[k] for k in sorted(exp)) or '-'
            if r.get('pamap', '')[3:] != want:
                viol('the attribute map does not compose to the message\'s attributes (one per type, ascending, without MP_REACH/MP_UNREACH)',
                     want=want[:200])
            # through the builder
            bl = r.get('builder', '')
            ct0 = c['content']
            present = set(['Ipv4Unicast'] if (ct0['ann'] or ct0['wd']) else [])
            if ct0['reach']:
                present.add(ct0['reach'][0])
            if ct0['unreach']:
                present.add(ct0['unreach'][0])
            mismatch = c['ap'] != updenc.rx(c['cfg'], nlrienc.AFISAFI[c['fam']]) or c['fam'] not in present
            if bl == 'PANIC':
                if c['kind'] == 'badnlri' or mismatch:
                    ctx.known_hit('K5', 'REB %d: add_*_from_pdu::<A> on an accepted UPDATE whose NLRI do not parse as A panics (unwrap)' % i)
                else:
                    viol('the seeded builder panicked')
            elif bl.startswith('ok:'):
                stats['builder_ok'] += 1
                s = split_msg(bytes.fromhex(bl[3:]))
                if isinstance(s, str):
                    viol('the rebuilt message is malformed: ' + s)
                    continue
                if s['attrs'].hex() != (want if want != '-' else ''):
                    viol('the rebuilt message does not carry the message\'s attributes')
                ct = c['content']
                fam = c['fam']
                good_ap = c['ap'] == updenc.rx(c['cfg'], nlrienc.AFISAFI[fam])
                if good_ap and c['kind'] != 'badnlri':
                    stats['builder_checked'] += 1
                    want_a = want_w = None
                    if fam == 'Ipv4Unicast' and ct['ann']:
                        want_a = b''.join(nlrienc.encode(v) for v in ct['ann'])
                    elif ct['reach'] and ct['reach'][0] == fam:
                        want_a = b''.join(nlrienc.encode(v) for v in ct['reach'][2])
                    if fam == 'Ipv4Unicast' and ct['wd']:
                        want_w = b''.join(nlrienc.encode(v) for v in ct['wd'])
                    elif ct['unreach'] and ct['unreach'][0] == fam:
                        want_w = b''.join(nlrienc.encode(v) for v in ct['unreach'][1])
                    got_a = s['reach'][2] if s['reach'] else None
                    got_w = s['unreach'][1] if s['unreach'] else None
                    if (want_a or None) != (got_a or None):
                        viol('announcements of the rebuilt message differ from the received ones')
                    if (want_w or None) != (got_w or None):
                        viol('withdrawals of the rebuilt message differ from the received ones')
    ctx.coverage.update({
        'evaluations': len(cases),
        'distinct_nontrivial': len(set(texts)),
        'rule': 'accepted UPDATEs from the C01 generator (every family, ADD-PATH map, 2-/4-octet session) plus unknown attribute types with '
                'every flag nibble (extended-length flag on short values included), recognised attributes with malformed values of 0..1000 '
                'octets, duplicated type codes, malformed MP NLRI; re-encoded directly, through PaMap and through a seeded builder; the '
                'octets are decoded again by the implementation and compared attribute by attribute (value, canonical / received flags, '
                'typed getters), map = first per type in ascending order, builder = same attributes and NLRI; plus model = implementation',
        'input_distribution': stats,
    })
    ctx.samples = [texts[0][:300], by.get(0, '')[:300]]


def replay(ctx, path):
    run(ctx)
