"""C04 - path attributes survive encode/decode; declared length equals bytes written."""
import os
from lib import core
from lib.core import CheckFailure

GENERATORS = ['attrs']
TRUSTED_BASE = [
    'Coq 8.16.1 kernel (coqc); vm_compute only to look up the generated table; no axioms',
    'translator tools/gen_attrs.py: type code, canonical flags, validate rule and value_len rule of each `impl Attribute` are generated; the Attribute trait defaults (header logic), WireformatPathAttribute::parse/to_owned, PathAttribute::compose/compose_len and UnimplementedPathAttribute::compose(_len) are pinned by hash',
    'hand-written Model/Attr.v (compose_value / parse bodies per type, framing), Model/AsPath.v for the two AS path attributes; tied by the correspondence run',
    'extraction: ExtrOcamlBasic only; ocaml/c04.ml, harness/src/c04.rs',
]
ASSUMPTIONS = [
    'wf_attr: field values fit their octets, the value fits the 16-bit length field, AS path hops satisfy hop_ok (K1 excluded)',
    'StandardCommunitiesList, ClusterIds and LargeCommunitiesList have no public constructor: the harness builds them with Attribute::parse',
]

CANON = {1: 0x40, 2: 0x40, 3: 0x40, 4: 0x80, 5: 0x40, 6: 0x40, 7: 0xc0, 8: 0xc0, 9: 0x80, 10: 0x80, 16: 0xc0, 17: 0xc0,
         18: 0xc0, 20: 0xc0, 21: 0xc0, 25: 0xc0, 32: 0xc0, 35: 0xc0, 128: 0xc0, 255: 0xc0}


def path_valid(v, asz):
    i = 0
    while i < len(v):
        if i + 2 > len(v) or not (1 <= v[i] <= 4):
            return False
        n = v[i + 1]
        i += 2 + n * asz
    return i == len(v)


def valid(code, four, v):
    n = len(v)
    if code in (3, 4, 5, 9, 20, 35):
        return n == 4
    if code == 1:
        return n == 1
    if code == 6:
        return n == 0
    if code == 7:
        return n == (8 if four else 6)
    if code == 18:
        return n == 8
    if code in (8, 10):
        return n % 4 == 0
    if code == 16:
        return n % 8 == 0
    if code == 25:
        return n % 20 == 0
    if code == 32:
        return n % 12 == 0
    if code == 21:
        return n == 5
    if code == 128:
        return n >= 4
    if code == 255:
        return True
    if code == 2:
        return path_valid(v, 4 if four else 2)
    if code == 17:
        return path_valid(v, 4)
    return None


def gen(ctx):
    rng = core.SplitMix(ctx.seed)
    lines = []
    meta = []

    def attr(code, args, vlen):
        lines.append('ATTR %d %d %s' % (len(lines), code, ' '.join(args)))
        meta.append(('attr', code, vlen))

    def run_tokens(n, base=64000):
        return ';'.join('a%d' % (base + (i % 1000)) for i in range(n)) if n else '-'

    reps = 2 if ctx.tier == 'quick' else 20
    for _ in range(reps):
        attr(1, [str(rng.choice([0, 1, 2, 3, 255]))], 1)
        for c in (3, 4, 5, 9, 20, 35):
            attr(c, [str(rng.choice([0, 1, 0xffffffff, rng.below(1 << 32)]))], 4)
        attr(6, [], 0)
        for c in (7, 18):
            attr(c, [str(rng.choice([1, 65535, 65536, 0xffffffff])), str(rng.below(1 << 32))], 8)
        for c, k, sizes in ((8, 4, [0, 1, 63, 64, 65, 200]), (10, 4, [0, 1, 63, 64]), (16, 8, [0, 1, 31, 32, 33]),
                            (25, 20, [0, 1, 12, 13]), (32, 12, [0, 1, 21, 22, 100])):
            for n in sizes:
                # lists with repeated entries too (legal on the wire; must survive)
                for rep in (False, True):
                    if k == 4:
                        pool = [str(rng.below(1 << 32)) for _ in range(3)]
                        items = ','.join((rng.choice(pool) if rep and rng.chance(2, 3) else str(rng.below(1 << 32))) for _ in range(n)) or '-'
                    else:
                        pool = [bytes(rng.below(256) for _ in range(k)).hex() for _ in range(3)]
                        items = ','.join((rng.choice(pool) if rep and rng.chance(2, 3) else bytes(rng.below(256) for _ in range(k)).hex()) for _ in range(n)) or '-'
                    attr(c, [items], n * k)
        for c in (2, 17):
            for n in (0, 1, 2, 63, 64, 254, 255, 256, 257, 300, 511):
                nseg = (1 if n % 255 else 0) + n // 255
                attr(c, [run_tokens(n)], 4 * n + 2 * nseg)
            attr(c, ['a1;S1:5,6;a2;S3:9;S4:10,11'], None)
        attr(21, [str(rng.below(256)), str(rng.below(1 << 32))], 5)
        for n in (0, 1, 250, 251, 252, 253, 300):
            attr(128, [str(rng.below(1 << 32)), bytes(rng.below(256) for _ in range(n)).hex() or '-'], 4 + n)
        for n in (0, 1, 254, 255, 256, 257, 1000):
            attr(255, [bytes(rng.below(256) for _ in range(n)).hex() or '-'], n)
    # every value length 0..=300 fed to every type's length rule, both ASN widths
    codes = sorted(CANON)
    step = 1 if ctx.tier == 'thorough' else 1
    for code in codes:
        for n in range(0, 301, step):
            # both ASN widths for the types whose length rule depends on the width (an 8-octet AGGREGATOR is well-formed on a
            # four-octet session only, a 6-octet one on a two-octet session only)
            for four in ([False, True] if code in (2, 7) else [rng.chance(1, 2)]):
                if code in (2, 17) and rng.chance(2, 3):
                    # structured AS path octets so that some lengths are valid
                    asz = 4 if (four or code == 17) else 2
                    v = b''
                    while len(v) + 2 + asz <= n:
                        k = min((n - len(v) - 2) // asz, rng.choice([1, 2, 3, 255]))
                        # ASNs at the far ends of their ranges and the reserved ones (0, AS_TRANS 23456, 65535, 65536, 2^32-1) next to random ones
                        v += bytes([rng.choice([1, 2, 2, 3, 4]), k]) + b''.join(
                            (rng.choice([0, 23456, 65535, 65536, 0xffffffff]) & ((1 << (8 * asz)) - 1)).to_bytes(asz, 'big')
                            if rng.chance(1, 4) else bytes(rng.below(256) for _ in range(asz)) for _ in range(k))
                        if rng.chance(1, 2):
                            break
                    v = v + bytes(rng.below(5) for _ in range(n - len(v)))
                else:
                    v = bytes(rng.below(256) for _ in range(n))
                flags = CANON[code]
                ext = n > 255 or rng.chance(1, 5)
                if rng.chance(1, 6):
                    flags = rng.choice([0x00, 0x40, 0x80, 0xc0, 0xe0, 0x4f])
                hdr = bytes([flags | 0x10, code]) + len(v).to_bytes(2, 'big') if ext else bytes([flags & 0xef, code, len(v)])
                lines.append('RAW %d %d %s' % (len(lines), 1 if four else 0, (hdr + v + bytes(rng.below(256) for _ in range(rng.below(3)))).hex()))
                meta.append(('raw', code, four, v, (flags | 0x10) if ext else (flags & 0xef)))
    for _ in range(300 if ctx.tier == 'quick' else 6000):
        code = rng.choice([0, 11, 12, 13, 14, 15, 19, 22, 23, 33, 36, 40, 127, 129, 200, 254])
        n = rng.choice([0, 1, 4, 254, 255, 256, 300, 1000])
        v = bytes(rng.below(256) for _ in range(n))
        flags = rng.below(256)
        ext = n > 255 or (flags & 0x10) != 0
        hdr = bytes([flags | 0x10, code]) + n.to_bytes(2, 'big') if ext else bytes([flags & 0xef, code, n])
        lines.append('RAW %d %d %s' % (len(lines), rng.below(2), (hdr + v).hex()))
        meta.append(('unk', code, None, v, (flags | 0x10) if ext else (flags & 0xef)))
    for _ in range(200 if ctx.tier == 'quick' else 4000):
        lines.append('RAW %d %d %s' % (len(lines), rng.below(2), bytes(rng.below(256) for _ in range(rng.below(12))).hex() or '-'))
        meta.append(('rand',))
    return lines, meta


def run(ctx):
    d = core.case_dir('C04')
    lines, meta = gen(ctx)
    path = os.path.join(d, 'cases.txt')
    with open(path, 'w') as f:
        f.write('\n'.join(lines) + '\n')
    impl, _ = core.run_tool_sharded(ctx.harness, ['c04'], path)
    impl = [l for l in impl if l]
    if len(impl) != len(lines):
        raise CheckFailure('corr', 'implementation produced %d lines for %d cases' % (len(impl), len(lines)))
    stats = {}
    for l, m, case in zip(impl, meta, lines):
        body = l.split(' ', 2)[2]
        f = dict(x.split('=', 1) for x in body.split(' ') if '=' in x)
        if 'PANIC' in body:
            ctx.violation('panic in path attribute code', case=case[:300], impl=l[:300])
            continue
        if m[0] == 'attr':
            code, vlen = m[1], m[2]
            comp = bytes.fromhex(f['comp']) if f.get('comp', '-') != '-' else b''
            bad = None
            if f.get('parsed') != 'T' or f.get('owned_eq') != '1' or f.get('more') != '0':
                bad = 'encode then decode (4-octet) does not yield an equal typed value'
            elif int(f['clen']) != len(comp):
                bad = 'compose_len differs from the number of octets produced'
            elif int(f['code']) != code:
                bad = 'wrong type code'
            else:
                n = int(f['len'])
                want = CANON[code] | (0x10 if n > 255 else 0)
                if int(f['flags']) != want:
                    bad = 'flags are not the canonical flags with extended-length exactly above 255 octets'
                elif vlen is not None and n != vlen:
                    bad = 'value length differs from the expected encoding size'
            if bad:
                ctx.violation(bad, case=case[:300], impl=l[:300])
            stats['attr'] = stats.get('attr', 0) + 1
        elif m[0] == 'raw':
            code, four, v, flags = m[1], m[2], m[3], m[4]
            ok = valid(code, four, v)
            kind = body.split(' ')[0]
            stats['raw_' + kind] = stats.get('raw_' + kind, 0) + 1
            if ok and kind != 'T':
                ctx.violation('a value that satisfies the type\'s length rule was not accepted as typed', case=case[:200], impl=l[:300])
            elif not ok:
                owned = f.get('owned', '')
                if kind != 'I':
                    ctx.violation('a value violating the type\'s length rule was not surfaced as invalid', case=case[:200], impl=l[:300])
                elif not owned.startswith('I:%d:' % code) or not owned.split(':')[2].endswith(v.hex()):
                    ctx.violation('invalid attribute does not carry its raw value', case=case[:200], impl=l[:300])
        elif m[0] == 'unk':
            if body.split(' ')[0] != 'U':
                ctx.violation('unrecognised attribute type not surfaced as unimplemented', case=case[:200], impl=l[:300])
        if len(ctx.violations) > 10:
            break
    if ctx.model:
        model, _ = core.run_tool_sharded(ctx.model, ['c04'], path)
        for k, a, b in core.diff_lines(model, impl, limit=5):
            ctx.violation('model and implementation disagree', case=lines[k][:300] if k < len(lines) else None, model=a[:400], impl=b[:400])
    ctx.coverage.update({
        'evaluations': len(impl),
        'distinct_nontrivial': len(set(lines)),
        'rule': 'typed values of all 20 kinds with list sizes straddling 255/256 octets and 255 ASNs (compose, compose_len, decode, '
                'to_owned, ==); for every typed code every value length 0..=300 in both ASN widths with canonical / odd flags and '
                'short / extended length encodings (validity judged by an independent RFC length table); unknown codes; random octets. '
                'distinct = distinct case lines',
        'input_distribution': stats,
    })
    ctx.samples = [lines[0], impl[0], lines[-250][:120], impl[-250][:200]]


def replay(ctx, path):
    run(ctx)
