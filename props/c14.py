"""C14 - equality, ordering and hashing of NLRI agree with one another."""
import os
from lib import core, nlrienc
from lib.core import CheckFailure

GENERATORS = ['enums']
TRUSTED_BASE = [
    'Coq 8.16.1 kernel (coqc); no axioms',
    'hand-written Model/NlriOrd.v: comparison keys (field order of every hand-written/derived Ord), ==, hash input; Model/Nlri.v for the values; tied by the correspondence run (pairs and triples of decoded values, three buffer types)',
    'inetnum Prefix::cmp is a parameter of the theorems (hypotheses: total order on prefixes); its executable model prefix_cmp is compared against the crate on every pair, and the order laws are checked on the crate by the oracle',
    'extraction: ExtrOcamlBasic only; ocaml/c05.ml, harness/src/c05.rs',
]
ASSUMPTIONS = [
    'derive(PartialEq/Ord/Hash) semantics of rustc: fields in declaration order, enum discriminant first (as isize for Hash)',
    'Prefix::cmp (external crate inetnum) is a total order with cmp = Equal only for identical prefixes',
]


def mutate(v, rng):
    """a copy of v differing in exactly one component"""
    w = dict(v)
    k = nlrienc.kind(v['fam'])
    v6 = nlrienc.is_v6(v['fam'])
    choices = []
    if v.get('pid') is not None:
        choices.append('pid')
    if k in ('P', 'M', 'V'):
        choices += ['addr', 'plen']
    if k in ('M', 'V'):
        choices.append('labels')
    if k == 'V':
        choices.append('rd')
    if k in ('R', 'F', 'E'):
        choices.append('raw')
    if k == 'E':
        choices.append('type')
    if k == 'L':
        choices += ['rd', 've', 'off', 'size', 'lb']
    c = rng.choice(choices)
    if c == 'pid':
        w['pid'] = rng.choice([(v['pid'] + 1 + rng.below(5)) & 0xffffffff, v['pid'] ^ (1 << rng.below(32))])
    elif c == 'addr':
        wd = 128 if v6 else 32
        if v['plen'] == 0:
            return None
        bit = 1 << (wd - 1 - rng.below(v['plen']))
        w['addr'] = v['addr'] ^ bit
    elif c == 'plen':
        if v['plen'] == 0:
            return None
        w['plen'] = v['plen'] - 1
        w['addr'] = nlrienc.mask(v['addr'], w['plen'], v6)
    elif c == 'labels':
        ls = list(v['labels'])
        if isinstance(ls[-1], bytes):
            # a withdrawal placeholder: the other placeholder (they differ in one bit), or a real label
            other = bytes([0, 0, 0]) if ls[-1][0] == 0x80 else bytes([0x80, 0, 0])
            ls = [other] if rng.chance(1, 2) else [(rng.below(1 << 20), 0, 1)]
        else:
            i = rng.below(len(ls))
            val, e, s_ = ls[i]
            m = rng.below(3)
            if m == 0:
                val2, e2 = (val + 1) % (1 << 20), e
            elif m == 1:
                val2, e2 = val ^ (1 << rng.below(20)), e
            else:
                val2, e2 = val, e ^ (1 << rng.below(3))
            # keep clear of the two compatibility stop patterns above the bottom of the stack
            if s_ == 0 and val2 in (0, 0x80000) and e2 == 0:
                e2 = 1 if (val2, 1) != (val, e) else 2
            ls[i] = (val2, e2, s_)
        w['labels'] = ls
    elif c == 'rd':
        i = rng.below(8)
        w['rd'] = v['rd'][:i] + bytes([v['rd'][i] ^ (1 << rng.below(8))]) + v['rd'][i + 1:]
    elif c == 'raw':
        if nlrienc.kind(v['fam']) == 'F' and not v6:
            if len(v['raw']) < 3:
                return None
            w['raw'] = v['raw'][:-1] + bytes([v['raw'][-1] ^ (1 << rng.below(8))])
        elif len(v['raw']) == 0:
            w['raw'] = b'\x01' if k != 'R' else b'\x00\x00\x00\x01'
        else:
            i = rng.below(len(v['raw']))
            w['raw'] = v['raw'][:i] + bytes([v['raw'][i] ^ (1 << rng.below(8))]) + v['raw'][i + 1:]
    elif c == 'type':
        w['type'] = rng.choice([(v['type'] + 1) % 256, v['type'] ^ (1 << rng.below(8))])
    else:
        width = {'ve': 16, 'off': 16, 'size': 16, 'lb': 24}[c]
        w[c] = v[c] ^ (1 << rng.below(width))
    return w


def gen(ctx):
    rng = core.SplitMix(ctx.seed)
    lines = []
    meta = []

    def enc(v):
        return '%s %d %s' % (v['fam'], 1 if v['pid'] is not None else 0, nlrienc.encode(v).hex() or '-')

    def pair(a, b, tag):
        lines.append('CMP %d %s %s' % (len(lines), enc(a), enc(b)))
        meta.append(tag)

    n = 120 if ctx.tier == 'quick' else 3000
    for fam in nlrienc.FAMS:
        for ap in (False, True):
            for _ in range(n):
                bnd = None
                if nlrienc.kind(fam) in ('F', 'E'):
                    bnd = rng.choice([0, 3, 4, 6, 7, 8, 12, 30])
                a = nlrienc.gen_value(fam, rng, rng.below(4) if ap else None, boundary=bnd)
                pair(a, a, 'same')
                b = mutate(a, rng)
                if b is not None:
                    pair(a, b, 'one')
                    pair(b, a, 'one')
                # triple for transitivity: a, b, c of the same variant
                c = nlrienc.gen_value(fam, rng, rng.below(4) if ap else None, boundary=bnd)
                d = mutate(c, rng) or c
                t = [a, c, d]
                for (x, y) in ((0, 1), (1, 2), (0, 2)):
                    pair(t[x], t[y], 'tri%d%d' % (x, y))
    # cross-variant pairs
    for _ in range(800 if ctx.tier == 'quick' else 20000):
        f1, f2 = rng.choice(nlrienc.FAMS), rng.choice(nlrienc.FAMS)
        a = nlrienc.gen_value(f1, rng, rng.below(3) if rng.chance(1, 2) else None, boundary=(6 if nlrienc.kind(f1) in ('F', 'E') else None))
        b = nlrienc.gen_value(f2, rng, rng.below(3) if rng.chance(1, 2) else None, boundary=(6 if nlrienc.kind(f2) in ('F', 'E') else None))
        pair(a, b, 'cross')
        pair(b, a, 'cross')
    return lines, meta


def run(ctx):
    d = core.case_dir('C14')
    lines, meta = gen(ctx)
    path = os.path.join(d, 'cases.txt')
    with open(path, 'w') as f:
        f.write('\n'.join(lines) + '\n')
    impl, _ = core.run_tool_sharded(ctx.harness, ['c14'], path)
    impl = [l for l in impl if l]
    if len(impl) != len(lines):
        raise CheckFailure('corr', 'implementation produced %d lines for %d cases' % (len(impl), len(lines)))
    res = []
    for l, case, tag in zip(impl, lines, meta):
        f = dict(x.split('=', 1) for x in l.split(' ')[2:] if '=' in x)
        res.append(f)
        if 'PANIC' in l or 'UNPARSED' in l:
            ctx.violation('comparison panicked / reference encoding not decoded', case=case, impl=l)
            continue
        if (f['eq'] == '1') != (f['cmp'] == 'Eq'):
            ctx.violation('== disagrees with cmp == Equal', case=case, impl=l[:300])
        if f['eq'] == '1' and (f['h1'] != f['h2'] or f['heq'] != '1'):
            ctx.violation('== values hash differently', case=case, impl=l[:300])
        if f['xbuf'] != '1' or f['xhash'] != '1' or f['xeq'] != f['eq']:
            ctx.violation('values decoded from different buffer types holding the same octets are not ==', case=case, impl=l[:300])
        if tag == 'same' and f['eq'] != '1':
            ctx.violation('a value is not == to itself', case=case, impl=l[:300])
        if tag == 'one' and f['eq'] != '0':
            ctx.violation('values differing in one component are ==', case=case, impl=l[:300])
        if len(ctx.violations) > 10:
            break
    opp = {'Lt': 'Gt', 'Gt': 'Lt', 'Eq': 'Eq'}
    i = 0
    while i < len(meta) and len(ctx.violations) <= 10:
        t = meta[i]
        if t in ('one', 'cross') and i + 1 < len(meta) and meta[i + 1] == t and 'cmp' in res[i] and 'cmp' in res[i + 1]:
            if res[i + 1]['cmp'] != opp[res[i]['cmp']]:
                ctx.violation('ordering is not antisymmetric', case=[lines[i], lines[i + 1]], impl=[impl[i][:200], impl[i + 1][:200]])
            i += 2
        elif t == 'tri01' and i + 2 < len(meta) and all('cmp' in res[i + k] for k in range(3)):
            ab, bc, ac = res[i]['cmp'], res[i + 1]['cmp'], res[i + 2]['cmp']
            bad = (ab == 'Lt' and bc in ('Lt', 'Eq') and ac != 'Lt') or (ab == 'Eq' and bc == 'Lt' and ac != 'Lt') or \
                  (ab == 'Gt' and bc in ('Gt', 'Eq') and ac != 'Gt') or (ab == 'Eq' and bc == 'Gt' and ac != 'Gt') or \
                  (ab == 'Eq' and bc == 'Eq' and ac != 'Eq')
            if bad:
                ctx.violation('ordering is not transitive', case=[lines[i], lines[i + 1], lines[i + 2]],
                              impl=[impl[i][:160], impl[i + 1][:160], impl[i + 2][:160]])
            i += 3
        else:
            i += 1
    if ctx.model:
        model, _ = core.run_tool_sharded(ctx.model, ['c14'], path)
        for k, a, b in core.diff_lines(model, impl, limit=5):
            ctx.violation('model and implementation disagree', case=lines[k] if k < len(lines) else None, model=a[:400], impl=b[:400])
    tags = {}
    for t in meta:
        tags[t] = tags.get(t, 0) + 1
    ctx.coverage.update({
        'evaluations': len(impl),
        'distinct_nontrivial': len(set(l.split(' ', 2)[2] for l, t in zip(lines, meta) if t != 'same')),
        'rule': 'pairs of values of each of the 26 variants: identical, differing in exactly one component (path id, prefix '
                'bit, prefix length, label, route distinguisher, raw body, route type, VPLS field), random triples of one '
                'variant (transitivity), cross-variant pairs; each compared as Nlri<&[u8]> and against the same octets held '
                'in bytes::Bytes; hash inputs recorded through a recording Hasher; distinct = distinct case lines other than '
                'identical pairs',
        'input_distribution': tags,
    })
    ctx.samples = [lines[1], impl[1][:300]]


def replay(ctx, path):
    run(ctx)
