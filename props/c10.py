"""C10 - route preference is a weak order that implements the RFC 4271 tie-breakers."""
import os
from lib import core, routes
from lib.core import CheckFailure

GENERATORS = ['cmpchain']
TRUSTED_BASE = [
    'Coq 8.16.1 kernel (coqc); no axioms (Print Assumptions: closed)',
    'translator tools/gen_cmpchain.py: order of the then_with steps is generated; step bodies, eligible(), step_c, RouteSource order, hop_count_path_selection and neighbor_path_selection are pinned by normal-form hash (tools/pins.json)',
    'hand-written Model/Select.v (projection of PaMap/TiebreakerInfo onto the fields the comparison reads), tied by the correspondence run',
    'extraction: ExtrOcamlBasic only; ocaml/c10.ml, harness/src/c10.rs; lib/routes.py Python reference (oracle only)',
]
ASSUMPTIONS = [
    'Ipv4Addr/IpAddr/[u8;4]/u32 Ord are the usual total orders (std); ClusterIds::len is the list length',
    'routes are compared through the projection (dop, source, local ASN, BGP id, peer address, ORIGIN, AS_PATH hop kinds, LOCAL_PREF, MED, ORIGINATOR_ID, cluster list length); any other attribute only matters for content equality',
]


def gen(ctx):
    rng = core.SplitMix(ctx.seed)
    lines = []
    meta = []
    n_pairs = 12000 if ctx.tier == 'quick' else 400000
    n_triples = 6000 if ctx.tier == 'quick' else 150000
    cid = 0
    for k in range(n_pairs):
        strat = 'R' if rng.chance(1, 2) else 'S'
        a = routes.random_route(rng, eligible_only=rng.chance(5, 6))
        # b: mostly a perturbation of a in few fields, so that ties deep in the chain are exercised
        if rng.chance(2, 3):
            b = dict(a)
            for _ in range(1 + rng.below(3)):
                f = routes.FIELDS[rng.below(len(routes.FIELDS))]
                b[f] = routes.LATTICE[f][rng.below(len(routes.LATTICE[f]))]
        else:
            b = routes.random_route(rng, eligible_only=rng.chance(5, 6))
        lines.append('PAIR %d %s %s | %s' % (cid, strat, routes.fmt(a), routes.fmt(b)))
        meta.append(('pair', strat, a, b))
        cid += 1
        lines.append('PAIR %d %s %s | %s' % (cid, strat, routes.fmt(b), routes.fmt(a)))
        meta.append(('pair', strat, b, a))
        cid += 1
    for k in range(n_triples):
        strat = 'S' if rng.chance(3, 4) else 'R'
        narrow = {'dop': [None], 'local_pref': [None, 50]} if rng.chance(1, 2) else None
        t = [routes.random_route(rng, eligible_only=True, narrow=narrow) for _ in range(3)]
        for (x, y) in ((0, 1), (1, 2), (0, 2)):
            lines.append('PAIR %d %s %s | %s' % (cid, strat, routes.fmt(t[x]), routes.fmt(t[y])))
            meta.append(('tri%d%d' % (x, y), strat, t[x], t[y]))
            cid += 1
    return lines, meta


def run(ctx):
    d = core.case_dir('C10')
    lines, meta = gen(ctx)
    path = os.path.join(d, 'cases.txt')
    with open(path, 'w') as f:
        f.write('\n'.join(lines) + '\n')
    impl, _ = core.run_tool_sharded(ctx.harness, ['c10'], path)
    impl = [l for l in impl if l]
    if len(impl) != len(lines):
        raise CheckFailure('corr', 'implementation produced %d lines for %d cases' % (len(impl), len(lines)))
    # oracle: RFC reference + order laws on the implementation's own answers
    res = []
    for l, (kind, strat, a, b) in zip(impl, meta):
        p = l.split()
        elig = p[2].split('=')[1]
        cmp_ = p[3].split('=')[1]
        eq = p[4].split('=')[1]
        res.append((elig, cmp_, eq))
        ea, eb = routes.eligible(a), routes.eligible(b)
        if elig != '%d%d' % (ea, eb):
            ctx.violation('try_new accepts/refuses a route contrary to the eligibility rule', case=lines[int(p[1])], impl=l)
            continue
        if ea and eb:
            exp = routes.ORD[routes.decide(strat, a, b)]
            if cmp_ != exp:
                ctx.violation('comparison differs from the RFC 4271 decision steps', case=lines[int(p[1])],
                              expected=exp, impl=l)
            if (eq == '1') != (cmp_ == 'Eq'):
                ctx.violation('== disagrees with cmp == Equal', case=lines[int(p[1])], impl=l)
        if len(ctx.violations) > 10:
            break
    opp = {'Lt': 'Gt', 'Gt': 'Lt', 'Eq': 'Eq', 'NA': 'NA'}
    i = 0
    while i < len(meta) and len(ctx.violations) <= 10:
        kind = meta[i][0]
        if kind == 'pair':
            if res[i][1] in opp and res[i + 1][1] != opp[res[i][1]]:
                ctx.violation('antisymmetry violated', case=lines[i], impl=[impl[i], impl[i + 1]])
            i += 2
        else:
            ab, bc, ac = res[i][1], res[i + 1][1], res[i + 2][1]
            if meta[i][1] == 'S':
                bad = (ab == 'Lt' and bc == 'Lt' and ac != 'Lt') or (ab == 'Eq' and bc == 'Eq' and ac != 'Eq') or \
                      (ab == 'Eq' and bc == 'Lt' and ac != 'Lt') or (ab == 'Lt' and bc == 'Eq' and ac != 'Lt')
                if bad:
                    ctx.violation('weak-order law violated with MED comparison disabled',
                                  case=[lines[i], lines[i + 1], lines[i + 2]], impl=[impl[i], impl[i + 1], impl[i + 2]])
            i += 3
    if ctx.model:
        model, _ = core.run_tool_sharded(ctx.model, ['c10'], path)
        for k, a, b in core.diff_lines(model, impl, limit=5):
            ctx.violation('model and implementation disagree', case=lines[k] if k < len(lines) else None, model=a, impl=b)
    dist = {}
    for e, c, q in res:
        dist[c] = dist.get(c, 0) + 1
    ctx.coverage.update({
        'evaluations': len(impl),
        'distinct_nontrivial': len(set(lines[i].split(' ', 2)[2] for i in range(min(len(lines), len(res))) if res[i][1] in ('Lt', 'Gt', 'Eq'))),
        'rule': 'pairs (each in both orders) and triples of routes drawn from a lattice of 2-10 values per decision field; '
                'two thirds of the pairs differ in 1-3 fields only; ineligible routes kept for try_new; both strategies; '
                'non-trivial = both routes eligible; distinct = distinct (strategy, route pair)',
        'input_distribution': dist,
    })
    ctx.samples = [lines[0], impl[0], lines[-1], impl[-1]]


def replay(ctx, path):
    run(ctx)
